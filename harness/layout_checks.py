"""Layout cluster: correspondence + search helpers shared by C04 (descriptor half), C05 (layout half)
and C06 (harness/props/c06.py).

Public entry points (each takes the Check object and an open `lean.Driver("driver_layout")`):

    check_c05_layout(chk, driver)      coefficient/constant offsets, original positions of real IntegralIRs
                                       (corpus + seeded synthetic forms) vs Layout.lean; `c[...]` indices of
                                       generated kernels vs `constAccess`
    check_c04_descriptor(chk, driver)  ufcx_expression descriptor fields (IR, generated C text, and read back
                                       through cffi for one batch) vs `exprDesc`; error branches; the property's
                                       own oracle "descriptor describes the layout of w and c"
    check_c04_stores(chk, driver)      every store into A of every expression kernel (exported AST) has the MultiIndex shape
                                       `exprAShape` = [P, C(, D)] and (point, component, dof) symbols in that order
                                       (decidable `exprStoresB`, theorems expr_store_slot / expr_store_slot_rank0)
    check_tensor_sizes(chk, driver)    common.tensor_sizes(ir) (A, w, c, coordinate_dofs of integrals and expressions) vs
                                       Layout.lean and vs the UFCx contract extents computed from UFL/basix

Lean obligations of the layout halves (module `FfcxProofs.Lemmas.Layout`):
    C05_THEOREMS, C04_THEOREMS
"""
import random
import re
from pathlib import Path

import basix
import basix.ufl
import numpy as np
import ufl

from . import corpus, pipeline

LEAN = Path(__file__).resolve().parent.parent / "lean"
LAYOUT_MODULE = "FfcxProofs.Lemmas.Layout"
LAYOUT_FILES = [LEAN / "FfcxModel/IR/Layout.lean", LEAN / "FfcxProofs/Lemmas/Layout.lean"]
C05_THEOREMS = [
    "Ffcx.Layout.coeff_blocks_tile",
    "Ffcx.Layout.coeffAccess_in_block",
    "Ffcx.Layout.const_blocks_tile",
    "Ffcx.Layout.orig_positions",
    "Ffcx.Layout.width_table",
    "Ffcx.Layout.flatten_lt",
    "Ffcx.Layout.flatten_inj",
    "Ffcx.Layout.flatIdx_eq_flatComponent",
]
C04_STORE_MODULE = "FfcxProofs.C04"
C04_STORE_FILES = [LEAN / "FfcxModel/LNodes/ExprStores.lean"]
C04_STORE_THEOREMS = [
    "Ffcx.LNodes.expr_store_slot",
    "Ffcx.LNodes.expr_store_slot_rank0",
    "Ffcx.LNodes.exprStores_sound",
    "Ffcx.LNodes.eqE_sound",
]
C04_THEOREMS = [
    "Ffcx.Layout.expr_layout",
    "Ffcx.Layout.expr_layout_inj",
    "Ffcx.Layout.expr_layout_rank0",
    "Ffcx.Layout.orig_positions",
    "Ffcx.Layout.expr_descriptor",
    "Ffcx.Layout.entityType_error",
    "Ffcx.Layout.exprDesc_two_arguments",
    "Ffcx.Layout.expr_num_constants",
    "Ffcx.Layout.expr_num_constants_witness",
]
TENSOR_SIZES_THEOREMS = [
    "Ffcx.Layout.width_agree",
    "Ffcx.Layout.tensor_sizes_integral",
    "Ffcx.Layout.tensor_sizes_expression",
    "Ffcx.Layout.tensor_sizes_interior_witness",
]

TYPES = ("cell", "exterior_facet", "interior_facet", "vertex", "ridge")


# ----------------------------------------------------------------------------- s-expression helpers
def sx(x):
    """nested python lists/ints/str -> s-expression text"""
    if isinstance(x, (list, tuple)):
        return "(" + " ".join(sx(y) for y in x) + ")"
    if isinstance(x, (bool, np.bool_)):
        return "true" if x else "false"
    return str(int(x)) if isinstance(x, (int, np.integer)) else str(x)


def ints(r):
    return [int(a) for a in r]


def _prod(shape):
    p = 1
    for s in shape:
        p *= int(s)
    return p


def _dim(element):
    return int(element.dim)


# ----------------------------------------------------------------------------- synthetic forms (C05)
_ELEMS = {
    "interval": [("P", 1, None), ("P", 2, None), ("P", 3, None), ("DP", 0, None), ("P", 1, (2,))],
    "triangle": [("P", 1, None), ("P", 2, None), ("DP", 0, None), ("P", 1, (2,)), ("RT", 1, None), ("P", 2, (2, 2))],
    "quadrilateral": [("Q", 1, None), ("Q", 2, None), ("DQ", 0, None), ("Q", 1, (2,))],
    "tetrahedron": [("P", 1, None), ("P", 2, None), ("N1curl", 1, None), ("P", 1, (3,))],
    "hexahedron": [("Q", 1, None), ("DQ", 0, None)],
}


def _scalarize(c):
    """a scalar UFL expression that really depends on coefficient/constant `c`"""
    sh = c.ufl_shape
    if len(sh) == 0:
        return c
    if len(sh) == 1:
        return c[sh[0] - 1] + c[0]
    return c[sh[0] - 1, sh[1] - 1] + c[0, 0]


def synthetic_forms(seed, n):
    """n seeded forms: random cell, 1-5 coefficients over random elements (some of them unused or removed by
    differentiation), 0-3 constants of random shape, random integral types. Returns [(name, builder)]."""
    out = []
    for i in range(n):
        def b(i=i):
            rng = random.Random(seed * 7919 + i)
            cell = rng.choice(list(_ELEMS))
            m = corpus.mesh(cell)
            fam, deg, shape = rng.choice(_ELEMS[cell][:3])
            V = ufl.FunctionSpace(m, basix.ufl.element(fam, cell, deg))
            v = ufl.TestFunction(V)
            u = ufl.TrialFunction(V)
            coefs = []
            for _ in range(rng.randrange(1, 6)):
                fam, deg, shape = rng.choice(_ELEMS[cell])
                kw = {"shape": shape} if shape else {}
                coefs.append(ufl.Coefficient(ufl.FunctionSpace(m, basix.ufl.element(fam, cell, deg, **kw))))
            consts = [ufl.Constant(m, shape=rng.choice([(), (), (2,), (3,), (2, 2), (2, 3)]))
                      for _ in range(rng.randrange(0, 4))]
            used = [c for c in coefs if rng.random() < 0.7] or [coefs[-1]]
            usedk = [k for k in consts if rng.random() < 0.8]
            terms = []
            measures = ["dx", "ds"] + (["dS"] if cell != "hexahedron" else []) + (["dP"] if cell in ("triangle", "interval") else [])
            for _ in range(rng.randrange(1, 4)):
                mname = rng.choice(measures)
                R = (lambda e: e("+")) if mname == "dS" else (lambda e: e)
                s = 1.0
                for c in rng.sample(used, rng.randrange(1, len(used) + 1)):
                    s = s * R(_scalarize(c))
                for k in usedk:
                    if rng.random() < 0.6:
                        s = s * _scalarize(k)
                arity = rng.choice([0, 1, 2])
                if arity >= 1:
                    s = s * R(v)
                if arity == 2:
                    s = s * R(u)
                meas = getattr(ufl, mname)
                sid = rng.choice([None, None, 1, (1, 2), 5])
                terms.append((arity, s * (meas(sid) if sid is not None else meas)))
            ar = rng.choice([t[0] for t in terms])
            form = None
            for a, t in terms:
                if a == ar:
                    form = t if form is None else form + t
            if ar == 0 and rng.random() < 0.5 and used and used[0].ufl_shape == ():
                # differentiate a functional: coefficients that only occur linearly elsewhere may drop out
                form = ufl.derivative(form, used[0], ufl.TestFunction(used[0].ufl_function_space()))
            return [form]
        out.append((f"synth_{seed}_{i}", b))
    return out


# ----------------------------------------------------------------------------- C05 layout half
def _check_integral_layout(chk, driver, name, fd, iir):
    """One IntegralIR vs the model, inputs computed from UFL/basix only."""
    e = iir.expression
    itype = e.integral_type
    reduced = list(fd.reduced_coefficients)
    dims = [_dim(c.ufl_function_space().ufl_element()) for c in reduced]
    width = int(driver.ask(f"(width {itype})"))
    width_expected = 2 if itype == "interior_facet" else 1
    if width != width_expected:
        chk.disagree("widthOf", {"type": itype, "model": width, "expected": width_expected})
    offs, total = driver.ask(f"(coeffoff {width} {sx(dims)})")
    offs = ints(offs)
    # implementation: dict coefficient -> offset / numbering
    impl_num = [e.coefficient_numbering.get(c) for c in reduced]
    impl_off = [int(e.coefficient_offsets[c]) if c in e.coefficient_offsets else None for c in reduced]
    if impl_num != list(range(len(reduced))) or len(e.coefficient_numbering) != len(reduced):
        chk.disagree("coefficient_numbering", {"form": name, "impl": str(impl_num)})
    if impl_off != offs or len(e.coefficient_offsets) != len(reduced):
        chk.disagree("coefficient_offsets", {"form": name, "type": itype, "dims": dims, "model": offs, "impl": impl_off})
    # constants: original order, row-major sizes
    consts = list(fd.original_form.constants())
    shapes = [list(map(int, k.ufl_shape)) for k in consts]
    koffs, ktotal = driver.ask(f"(constoff {sx(shapes)})")
    impl_k = [int(e.original_constant_offsets[k]) if k in e.original_constant_offsets else None for k in consts]
    if impl_k != ints(koffs) or len(e.original_constant_offsets) != len(consts):
        chk.disagree("original_constant_offsets", {"form": name, "shapes": shapes, "model": ints(koffs), "impl": impl_k})
    if len(iir.enabled_coefficients) != len(reduced):
        chk.disagree("enabled_coefficients length", {"form": name, "n": len(iir.enabled_coefficients), "reduced": len(reduced)})
    nontrivial = (len(dims) >= 2 or width == 2 or any(len(s) > 0 for s in shapes))
    chk.case("c05-integral", key=(f"{itype}|{dims}|{shapes}" if nontrivial else None))
    _coeff_access_cases(chk, driver, name, e, reduced, width, dims)
    return int(total), int(ktotal)


def _coeff_access_cases(chk, driver, name, e, reduced, width, dims):
    """`coeffAccess` (Layout.lean) vs the REAL index expressions: `FFCXBackendSymbols.coefficient_dof_access` (the two call
    sites: access.py `w[offset + begin]`, definitions.py `w[offset + (ic*bs + begin)]`) and `coefficient_dof_access_blocked`,
    built over the real `coefficient_offsets` of this IntegralIR for a seeded (block size, begin, number of dofs) per
    coefficient; the emitted subscript is exported and evaluated by the Lean `evalI` at the first and last dof."""
    import zlib

    import ffcx.codegeneration.lnodes as lnodes
    from ffcx.codegeneration.symbols import FFCXBackendSymbols

    from . import export

    sym = FFCXBackendSymbols(e.coefficient_numbering, e.coefficient_offsets, e.original_constant_offsets)
    ic = sym.coefficient_dof_sum_index
    rng = random.Random(zlib.crc32(f"{name}|{dims}|{width}".encode()))
    for k, (coef, dim) in enumerate(zip(reduced, dims)):
        size = width * dim
        if size == 0:
            continue
        bs = rng.choice([1, 1, 2, 3])
        ndofs = rng.randrange(1, (size - 1) // bs + 2)
        begin = rng.randrange(0, size - bs * (ndofs - 1))
        try:
            accs = [("coefficient_dof_access", sym.coefficient_dof_access(coef, ic * bs + begin)),
                    ("coefficient_dof_access_blocked", sym.coefficient_dof_access_blocked(coef, ic, bs, begin)[1]),
                    ("coefficient_dof_access(begin)", sym.coefficient_dof_access(coef, begin))]
        except Exception as ex:
            chk.disagree("symbols.coefficient_dof_access: cannot build the access", {"form": name, "error": repr(ex)[:200]})
            return
        for what, acc in accs:
            if not isinstance(acc, lnodes.ArrayAccess) or acc.array.name != "w" or len(acc.indices) != 1:
                chk.disagree("coefficient access is not a one-dimensional access of w", {"form": name, "function": what, "node": str(acc)[:120]})
                continue
            idx = export.expr(acc.indices[0])
            for v in ({0} if what.endswith("(begin)") else {0, ndofs - 1}):
                dof = begin if what.endswith("(begin)") else v * bs + begin
                got = driver.ask(f"(evali {idx} ((ic {v})))")
                model, inblock = driver.ask(f"(coeffaccess {width} {sx(dims)} {k} {dof})")
                if got != ["ok", model] or inblock != "true":
                    chk.disagree("coeffAccess vs the real coefficient_dof_access index expression",
                                 {"form": name, "function": what, "coefficient": k, "dims": dims, "width": width, "block_size": bs,
                                  "begin": begin, "ic": v, "real_index": got, "model": [model, inblock], "expr": idx})
                chk.case("c05-coeffaccess", key=(f"{what}|{width}|{dims}|{k}|{bs}|{begin}|{v}" if (k > 0 or bs > 1 or begin > 0) else None))


def _check_positions(chk, driver, name, fd):
    """original_coefficient_positions: property oracle (reduced[i] is original[pos[i]]) and model."""
    orig = list(fd.original_form.coefficients())
    reduced = list(fd.reduced_coefficients)
    pos = [int(p) for p in fd.original_coefficient_positions]
    oc = [c.count() for c in orig]
    rc = [c.count() for c in reduced]
    model_pos, surv = driver.ask(f"(origpos {sx(oc)} {sx(rc)})")
    if ints(model_pos) != pos or ints(surv) != pos:
        chk.disagree("original_coefficient_positions", {"form": name, "orig": oc, "reduced": rc, "model": ints(model_pos), "impl": pos})
    ok = (len(pos) == len(reduced) and all(0 <= p < len(orig) for p in pos)
          and all(orig[p] is reduced[i] for i, p in enumerate(pos)) and all(a < b for a, b in zip(pos, pos[1:])))
    if not ok:
        chk.violation(f"positions:{name}", "original_coefficient_positions do not identify the surviving coefficients in original order",
                      {"form": name, "orig": oc, "reduced": rc, "positions": pos})
    chk.case("c05-positions", key=(f"{oc}->{pos}" if len(pos) < len(orig) else None))


_C_IDX = re.compile(r"(?<![A-Za-z0-9_])c\[(\d+)\]")


def _const_access_cases(chk, driver):
    """`c[...]` indices in generated kernels vs `constAccess` (row-major component inside the constant's block)."""
    import ffcx.compiler
    import ffcx.options

    opts = ffcx.options.get_options({})
    for cell, mname in (("triangle", "dx"), ("triangle", "dS"), ("tetrahedron", "ds")):
        m, V = corpus.space(cell, "P", 1)
        v = ufl.TestFunction(V)
        consts = [ufl.Constant(m), ufl.Constant(m, shape=(3,)), ufl.Constant(m, shape=(2, 3)), ufl.Constant(m, shape=(2, 2))]
        shapes = [list(k.ufl_shape) for k in consts]
        forms, expect = [], []
        for k, K in enumerate(consts):
            for idx in np.ndindex(*K.ufl_shape) if K.ufl_shape else [()]:
                comp = K[idx] if idx else K
                meas = getattr(ufl, mname)
                R = (lambda e: e("+")) if mname == "dS" else (lambda e: e)
                # every constant occurs (so the original form has all of them), only `comp` is non-removable
                forms.append((comp * R(v) + 0 * sum(_scalarize(q) for q in consts) * R(v)) * meas)
                expect.append((k, list(idx)))
        for form, (k, idx) in zip(forms, expect):
            # the constants of the form fix the layout (original order = by count)
            ks = list(form.constants())
            shp = [list(q.ufl_shape) for q in ks]
            kk = ks.index(consts[k])
            code, _ = ffcx.compiler.compile_ufl_objects([form], options=opts, namespace="lc")
            got = sorted({int(g) for g in _C_IDX.findall(code[1])})
            model = int(driver.ask(f"(constaccess {sx(shp)} {kk} {sx(idx)})"))
            inr, flat = driver.ask(f"(flatcomp {sx(shp[kk])} {sx(idx)})")
            if got != [model] or inr != "true":
                chk.disagree("constant_index_access", {"cell": cell, "measure": mname, "shapes": shp, "constant": kk, "index": idx,
                                                      "model": model, "impl_reads": got})
            chk.case("c05-constaccess", key=f"{cell}|{mname}|{shp}|{kk}|{idx}")


def corpus_forms(chk, n_generated):
    """[(name, builder, options)] of all form entries used by the layout checks."""
    out = []
    for e in corpus.fixed() + corpus.demos() + corpus.generated(chk.seed, n_generated):
        if e.kind == "form":
            out.append((e.name, e.build, e.options))
    return out


def compute_entry(chk, name, build, options=None):
    """analysis + IR of one entry; unsupported inputs are skipped (counted)."""
    import warnings

    try:
        with warnings.catch_warnings():
            warnings.simplefilter("ignore")
            objs = build()
            an, ir = pipeline.compute(objs, pipeline.default_options(**(options or {})))
        return objs, an, ir
    except Exception as ex:  # unsupported by FFCx (not this property's business)
        chk.hist["skipped:" + type(ex).__name__] = chk.hist.get("skipped:" + type(ex).__name__, 0) + 1
        return None


def check_c05_layout(chk, driver):
    """C05 layout half. Returns number of IntegralIRs checked."""
    quick = chk.tier == "quick"
    entries = corpus_forms(chk, 20 if quick else 200)
    entries += [(n, b, {}) for n, b in synthetic_forms(chk.seed, 60 if quick else 600)]
    n = 0
    for name, build, options in entries:
        r = compute_entry(chk, name, build, options)
        if r is None:
            continue
        objs, an, ir = r
        k = 0
        for fi, fd in enumerate(an.form_data):
            _check_positions(chk, driver, f"{name}#{fi}", fd)
            for _ in fd.integral_data:
                _check_integral_layout(chk, driver, f"{name}#{fi}", fd, ir.integrals[k])
                k += 1
                n += 1
    _const_access_cases(chk, driver)
    return n


def _tensor_violation(chk, field, itype, name, decl, contract, extra):
    """declared extent differs from the contract extent (smaller: the kernel reads beyond the declared array)"""
    key = f"tensor_sizes:{field}:{itype}"
    chk.violation(key, f"tensor_sizes(ir).{field} = {decl} but the UFCx contract extent of {field} is {contract} ({itype})",
                  {"form": name, "declared": decl, "contract": contract, **extra})


def check_tensor_sizes(chk, driver):
    """common.tensor_sizes (the extents the numba backend declares for A, w, c, coordinate_dofs) of every
    IntegralIR / ExpressionIR of the corpus vs the model (`tensorSizesIntegral`, `tensorSizesExpr`) and vs the
    UFCx contract extents computed from UFL/basix only. Returns the number of violations raised.
    Search keys: `tensor_sizes:<A|w|c|coords>:<integral type|expression>` (e.g. tensor_sizes:w:interior_facet)."""
    import warnings

    from ffcx.codegeneration.common import tensor_sizes

    quick = chk.tier == "quick"
    bad = 0
    entries = corpus_forms(chk, 10 if quick else 100) + [(n, b, {}) for n, b in synthetic_forms(chk.seed + 2, 20 if quick else 200)]
    for name, build, options in entries:
        r = compute_entry(chk, name, build, options)
        if r is None:
            continue
        objs, an, ir = r
        diag = (options or {}).get("part") == "diagonal"
        k = 0
        for fd in an.form_data:
            args = sorted(fd.preprocessed_form.arguments(), key=lambda a: a.number())
            adims = [_dim(a.ufl_function_space().ufl_element()) for a in args]
            dims = [_dim(c.ufl_function_space().ufl_element()) for c in fd.reduced_coefficients]
            shapes = [list(map(int, q.ufl_shape)) for q in fd.original_form.constants()]
            for itg in fd.integral_data:
                iir = ir.integrals[k]
                k += 1
                itype = itg.integral_type
                width = 2 if itype == "interior_facet" else 1
                nodes = int(itg.domain.ufl_coordinate_element().basix_element.dim)
                perm = bool(iir.expression.needs_facet_permutations)
                use = adims[:1] if (diag and len(adims) == 2) else adims
                contract = {"A": _prod([width * a for a in use]), "w": width * sum(dims), "c": sum(_prod(x) for x in shapes),
                            "coords": width * nodes * 3}
                t = tensor_sizes(iir)
                impl = {"A": int(t.A), "w": int(t.w), "c": int(t.c), "coords": int(t.coords), "local_index": int(t.local_index),
                        "permutation": int(t.permutation)}
                rep = driver.ask(f"(tensorsizes {itype} {sx(adims)} {sx(diag and len(adims) == 2)} {sx(dims)} {sx(shapes)} {nodes} {sx(perm)})")
                model = dict(zip(("A", "w", "c", "coords", "local_index", "permutation"), ints(rep[1:])))
                if model != impl or ints(rep[0]) != [int(x) for x in iir.expression.tensor_shape]:
                    chk.disagree("tensor_sizes(IntegralIR)", {"form": name, "type": itype, "model": model, "impl": impl,
                                                              "tensor_shape": [ints(rep[0]), list(map(int, iir.expression.tensor_shape))]})
                if int(iir.expression.number_coordinate_dofs) != nodes:
                    chk.disagree("number_coordinate_dofs", {"form": name, "impl": int(iir.expression.number_coordinate_dofs), "nodes": nodes})
                for f_ in ("A", "w", "c", "coords"):
                    if impl[f_] != contract[f_]:
                        bad += 1
                        _tensor_violation(chk, f_, itype, name, impl[f_], contract[f_], {"dims": dims, "arg_dims": adims, "const_shapes": shapes, "nodes": nodes})
                chk.case("tensor-sizes", key=f"{itype}|{adims}|{dims}|{shapes}|{nodes}")
    # expressions
    for e in corpus.expressions():
        with warnings.catch_warnings():
            warnings.simplefilter("ignore")
            expr, pts = e.build()[0]
            pts = np.asarray(pts, dtype=float)
            an, ir = pipeline.compute([(expr, pts)])
        eir = ir.expressions[0]
        processed = an.expressions[0][0]
        adims = [_dim(a.ufl_function_space().ufl_element()) for a in ufl.algorithms.extract_arguments(processed)]
        dims = [_dim(c.ufl_function_space().ufl_element()) for c in ufl.algorithms.extract_coefficients(processed)]
        shapes = [list(map(int, q.ufl_shape)) for q in ufl.algorithms.analysis.extract_constants(expr)]
        dom = _domain_of(processed)
        nodes = 0 if dom is None else int(dom.ufl_coordinate_element().basix_element.dim)
        perm = bool(eir.expression.needs_facet_permutations)
        contract = {"A": pts.shape[0] * _prod(expr.ufl_shape) * _prod(adims), "w": sum(dims), "c": sum(_prod(x) for x in shapes), "coords": nodes * 3}
        t = tensor_sizes(eir)
        impl = {"A": int(t.A), "w": int(t.w), "c": int(t.c), "coords": int(t.coords), "local_index": int(t.local_index), "permutation": int(t.permutation)}
        rep = driver.ask(f"(tensorsizesexpr {pts.shape[0]} {sx(list(expr.ufl_shape))} {sx(adims)} {sx(dims)} {sx(shapes)} {nodes} {sx(perm)})")
        model = dict(zip(("A", "w", "c", "coords", "local_index", "permutation"), ints(rep)))
        if model != impl:
            chk.disagree("tensor_sizes(ExpressionIR)", {"expression": e.name, "model": model, "impl": impl})
        for f_ in ("A", "w", "c", "coords"):
            if impl[f_] != contract[f_]:
                bad += 1
                _tensor_violation(chk, f_, "expression", e.name, impl[f_], contract[f_], {"dims": dims, "arg_dims": adims, "const_shapes": shapes, "nodes": nodes})
        chk.case("tensor-sizes-expr", key=e.name)
    return bad


# ----------------------------------------------------------------------------- C04 descriptor half
def _expr_cases(seed, quick):
    """[(name, builder -> (expr, points), expected exception class or None)]"""
    E = []

    def add(name, b, exc=None):
        E.append((name, b, exc))

    for e in corpus.expressions():
        add(e.name, (lambda e=e: e.build()[0]))

    def tri(deg=1, shape=None):
        return corpus.space("triangle", "P", deg, shape=shape)

    def b_rank0_scalar():
        m, V = tri(2)
        f = ufl.Coefficient(V)
        return (f * f, np.array([[0.1, 0.2], [0.3, 0.3], [0.5, 0.0], [0.0, 0.0]]))

    def b_rank1_vector():
        m, V = tri(2)
        u = ufl.TrialFunction(V)
        return (ufl.grad(u), np.array([[0.1, 0.2], [0.3, 0.3]]))

    def b_rank1_tensor():
        m, V = tri(1, shape=(2,))
        u = ufl.TrialFunction(V)
        k = ufl.Constant(m, shape=(2, 2))
        return (k * ufl.grad(u), np.array([[0.25, 0.25]]))

    def b_facet_tet():
        m, V = corpus.space("tetrahedron", "P", 1)
        f = ufl.Coefficient(V)
        n = ufl.FacetNormal(m)
        return (f * n, np.array([[0.2, 0.2], [0.6, 0.1], [0.1, 0.6]]))

    def b_facet_interval():
        m, V = corpus.space("interval", "P", 2)
        f = ufl.Coefficient(V)
        return (f.dx(0), np.zeros((1, 0)))

    def b_no_domain():
        return (ufl.as_vector([1.0, 2.0, 3.0]), np.array([[0.1, 0.1], [0.2, 0.2]]))

    def b_dropped_coeff():
        m, V = tri(1)
        f, g, h = ufl.Coefficient(V), ufl.Coefficient(V), ufl.Coefficient(V)
        x = ufl.variable(g)
        return (ufl.diff(f + h * x * x, x), np.array([[0.25, 0.25], [0.5, 0.1]]))  # f drops: positions [1, 2]

    def b_dropped_const():
        m, V = tri(1)
        f, g, h = ufl.Coefficient(V), ufl.Coefficient(V), ufl.Coefficient(V)
        c1, c2, c3 = ufl.Constant(m), ufl.Constant(m, shape=(2,)), ufl.Constant(m)
        x = ufl.variable(f)
        return (ufl.diff(c1 * g + c3 * h + c2[1] * x * x, x), np.array([[0.25, 0.25], [0.5, 0.1]]))

    def b_bad_pdim():
        m, V = corpus.space("tetrahedron", "P", 1)
        f = ufl.Coefficient(V)
        return (f, np.array([[0.5]]))

    def b_bad_pdim2():
        m, V = tri(1)
        f = ufl.Coefficient(V)
        return (f, np.array([[0.1, 0.1, 0.1]]))

    def b_two_args():
        m, V = tri(1)
        return (ufl.TrialFunction(V) * ufl.TestFunction(V), np.array([[0.1, 0.1]]))

    add("rank0_scalar_p2", b_rank0_scalar)
    add("rank1_vector", b_rank1_vector)
    add("rank1_tensor_const", b_rank1_tensor)
    add("facet_tet", b_facet_tet)
    add("facet_interval_pdim0", b_facet_interval)
    add("no_domain", b_no_domain)
    add("dropped_coefficient", b_dropped_coeff)
    add("dropped_constant", b_dropped_const)
    add("bad_pdim_tet_1", b_bad_pdim, ValueError)
    add("bad_pdim_tri_3", b_bad_pdim2, ValueError)
    add("two_arguments", b_two_args, RuntimeError)
    # seeded: random point counts / value shapes / ranks
    rng = random.Random(seed * 31 + 5)
    for i in range(6 if quick else 60):
        def b(i=i, s=rng.randrange(10**9)):
            r = random.Random(s)
            cell = r.choice(["triangle", "tetrahedron", "quadrilateral"])
            td = corpus.mesh(cell).ufl_cell().topological_dimension
            fam = "Q" if cell == "quadrilateral" else "P"
            shape = r.choice([None, None, (td,), (2, 2)])
            m, V = corpus.space(cell, fam, r.choice([1, 2]), shape=shape)
            f, g = ufl.Coefficient(V), ufl.Coefficient(V)
            e = r.choice([f, g, f + g, ufl.grad(f), ufl.inner(f, g), ufl.TrialFunction(V), ufl.grad(ufl.TrialFunction(V))])
            pd = r.choice([td, td, td - 1])
            P = r.randrange(1, 5)
            pts = np.array([[r.random() / (pd + 1) for _ in range(pd)] for _ in range(P)]).reshape(P, pd)
            return (e, pts)
        add(f"gen_expr_{seed}_{i}", b)
    return E


def _domain_of(expr):
    return max(ufl.domain.extract_domains(expr), default=None, key=lambda d: d.topological_dimension)


def _model_exprdesc(driver, original, processed, points):
    dom = _domain_of(processed)
    tdim = "none" if dom is None else int(dom.ufl_cell().topological_dimension)
    args = ufl.algorithms.extract_arguments(processed)
    adims = [_dim(a.ufl_function_space().ufl_element()) for a in args]
    oc = [c.count() for c in ufl.algorithms.extract_coefficients(original)]
    rc = [c.count() for c in ufl.algorithms.extract_coefficients(processed)]
    okk = ufl.algorithms.analysis.extract_constants(original)
    rk = ufl.algorithms.analysis.extract_constants(processed)
    req = (f"(exprdesc {tdim} {points.shape[0]} {points.shape[1]} {sx(list(processed.ufl_shape))} {sx(adims)} "
           f"{sx(oc)} {sx(rc)} {sx([list(k.ufl_shape) for k in okk])} {len(rk)})")
    return driver.ask(req), req, dict(orig_coeffs=oc, coeffs=rc, orig_consts=okk, consts=rk, adims=adims)


_FIELD = re.compile(r"\.(num_coefficients|num_constants|num_points|entity_dimension|num_components|rank)\s*=\s*(\d+)")


class TemplateChanged(Exception):
    """a field of the generated text cannot be read any more (template rename): reported through chk.disagree"""


def _parse_c_descriptor(src, name):
    at = src.find(f"ufcx_expression {name} =")
    if at < 0:
        raise TemplateChanged(f"ufcx_expression {name} = {{…}}")
    d = {k: int(v) for k, v in _FIELD.findall(src[at:])}
    missing = [k for k in ("num_coefficients", "num_constants", "num_points", "entity_dimension", "num_components", "rank") if k not in d]
    if missing:
        raise TemplateChanged("ufcx_expression members " + ", ".join(missing))
    m = re.search(rf"value_shape_{name}\[(\d+)\] = \{{([^}}]*)\}}", src)
    d["value_shape"] = [int(x) for x in m.group(2).split(",")] if m else []
    m = re.search(rf"original_coefficient_positions_{name}\[(\d+)\] = \{{([^}}]*)\}}", src)
    d["positions"] = [int(x) for x in m.group(2).split(",")] if m else []
    m = re.search(rf"points_{name}\[(\d+)\]", src)
    d["points_len"] = int(m.group(1)) if m else 0
    d["c_reads"] = sorted({int(g) for g in _C_IDX.findall(src)})
    return d


def check_c04_stores(chk, driver):
    """C04 tie between the real expression kernels and `expr_layout`: for every expression kernel of the corpus (and the
    seeded expressions of `_expr_cases`) the driver decides `exprStoresB (exprAShape …) ast` on the exported AST — every
    store into A is `A[MultiIndex([iq, <component literal>, <dof expression>], [P, C, D])]` exactly as lnodes.MultiIndex builds
    it, with P, C, D computed here from UFL (number of points, product of the value shape, argument element dimension).
    Returns the number of kernels checked."""
    import warnings

    from . import kernels

    quick = chk.tier == "quick"
    done = 0
    todo = [(f"{e.name}#{i}", (lambda o=o: o), None) for e in corpus.expressions() for i, o in enumerate(e.build())]
    names = {e.name for e in corpus.expressions()}
    todo += [t for t in _expr_cases(chk.seed, quick) if t[0] not in names]
    for name, build, exc in todo:
        if exc is not None:
            continue
        expr, pts = build()
        pts = np.asarray(pts, dtype=float)
        try:
            with warnings.catch_warnings():
                warnings.simplefilter("ignore")
                cases, _, _ = kernels.cases_for_expressions(name, [(expr, pts)])
        except Exception as ex:  # unsupported expression: the descriptor / numeric parts report what matters
            chk.hist["stores-skipped:" + type(ex).__name__] = chk.hist.get("stores-skipped:" + type(ex).__name__, 0) + 1
            continue
        args = sorted(ufl.algorithms.extract_arguments(expr), key=lambda a: a.number())
        adims = [_dim(a.ufl_function_space().ufl_element()) for a in args]
        vshape = [int(x) for x in expr.ufl_shape]
        P = int(pts.shape[0])
        for c in cases:
            r = driver.ask(f"(exprstores {c.ast_sexp} {P} {sx(vshape)} {sx(adims)})")
            if r[0] != "ok":
                chk.disagree("exprstores command fails on an expression kernel", {"case": name, "reply": r})
                continue
            ok, nstores, shape = r[1], int(r[2]), ints(r[3])
            if _prod(shape) != c.sizes["A"]:
                chk.disagree("exprAShape vs the contract extent of A", {"case": name, "shape": shape, "A": c.sizes["A"]})
            if ok != "true":
                chk.disagree("a store into A of an expression kernel does not have the MultiIndex shape [P, C, D] / (point, component, dof) "
                             "symbols the layout model predicts (exprStoresB fails)", {"case": name, "kernel": c.name, "shape": shape, "stores": nstores})
            chk.case("c04-stores", key=(f"{name}|{shape}|{nstores}" if nstores else None))
            done += 1
    return done


def check_c04_descriptor(chk, driver):
    """C04 descriptor half. Returns number of expressions checked."""
    import warnings

    import ffcx.compiler
    import ffcx.options
    from ffcx.analysis import analyze_ufl_objects
    from ffcx.codegeneration.common import tensor_sizes

    quick = chk.tier == "quick"
    opts = ffcx.options.get_options({})
    done = 0
    jit_batch = []
    for name, build, exc in _expr_cases(chk.seed, quick):
        expr, pts = build()
        pts = np.asarray(pts, dtype=float)
        try:
            with warnings.catch_warnings():
                warnings.simplefilter("ignore")
                an = analyze_ufl_objects([(expr, pts)], opts["scalar_type"])
        except Exception as ex:
            chk.hist["skipped-expr:" + type(ex).__name__] = chk.hist.get("skipped-expr:" + type(ex).__name__, 0) + 1
            continue
        processed = an.expressions[0][0]
        reply, req, info = _model_exprdesc(driver, expr, processed, pts)
        try:
            with warnings.catch_warnings():
                warnings.simplefilter("ignore")
                _, ir = pipeline.compute([(expr, pts)])
            eir = ir.expressions[0]
            impl_err = None
        except (ValueError, RuntimeError) as ex:
            eir, impl_err = None, ex
        except Exception as ex:  # unsupported expression (other stage) — not a descriptor matter
            chk.hist["skipped-expr:" + type(ex).__name__] = chk.hist.get("skipped-expr:" + type(ex).__name__, 0) + 1
            continue
        if impl_err is not None:
            ok = reply[0] == "error" and (exc is None or isinstance(impl_err, exc))
            if reply[0] == "error" and reply[1] != str(impl_err):
                ok = False
            if not ok:
                chk.disagree("expression rejection", {"case": name, "request": req, "model": reply, "impl": repr(impl_err)})
            chk.case("c04-rejected", key=f"{name}|{type(impl_err).__name__}")
            done += 1
            continue
        if reply[0] != "ok" or exc is not None:
            chk.disagree("expression acceptance", {"case": name, "request": req, "model": reply, "impl": "accepted"})
            continue
        (mP, mpd, mshape, mnc, mrank, mncoef, mnconst, mpos, metype, msizeA) = reply[1]
        # --- IR vs model
        e = eir.expression
        rule_pts = next(iter(e.integrand))[1].points
        impl = {
            "num_points": int(rule_pts.shape[0]), "entity_dimension": int(rule_pts.shape[1]),
            "value_shape": [int(s) for s in e.shape], "rank": len(e.tensor_shape),
            "num_coefficients": len(e.coefficient_numbering), "num_constants": len(eir.constant_names),
            "positions": [int(p) for p in eir.original_coefficient_positions], "entity_type": e.entity_type,
            "sizeA": int(tensor_sizes(eir).A),
        }
        model = {
            "num_points": int(mP), "entity_dimension": int(mpd), "value_shape": ints(mshape), "rank": int(mrank),
            "num_coefficients": int(mncoef), "num_constants": int(mnconst), "positions": ints(mpos),
            "entity_type": metype, "sizeA": int(msizeA),
        }
        if impl != model:
            chk.disagree("expression IR vs exprDesc", {"case": name, "request": req, "model": model, "impl": impl})
        # coefficient offsets of the expression (width 1) and constants (original order)
        red = ufl.algorithms.extract_coefficients(processed)
        dims = [_dim(c.ufl_function_space().ufl_element()) for c in red]
        offs, _ = driver.ask(f"(coeffoff 1 {sx(dims)})")
        if [int(e.coefficient_offsets[c]) for c in red] != ints(offs):
            chk.disagree("expression coefficient_offsets", {"case": name, "dims": dims, "model": ints(offs)})
        shapes = [list(map(int, k.ufl_shape)) for k in info["orig_consts"]]
        koffs, ktotal = driver.ask(f"(constoff {sx(shapes)})")
        if [int(e.original_constant_offsets[k]) for k in info["orig_consts"]] != ints(koffs):
            chk.disagree("expression original_constant_offsets", {"case": name, "shapes": shapes, "model": ints(koffs)})
        # --- generated C descriptor vs model
        code, _ = ffcx.compiler.compile_ufl_objects([(expr, pts)], options=opts, namespace="lc")
        mname = re.search(r"ufcx_expression (expression_[0-9a-f]+) =", code[1])
        if mname is None:
            chk.disagree("expression template changed: cannot read the name of the ufcx_expression struct", {"case": name})
            continue
        try:
            cd = _parse_c_descriptor(code[1], mname.group(1))
        except TemplateChanged as ex:
            chk.disagree(f"expression template changed: cannot read {ex}", {"case": name})
            continue
        ctext = {
            "num_points": cd["num_points"], "entity_dimension": cd["entity_dimension"], "value_shape": cd["value_shape"],
            "num_components": cd["num_components"], "rank": cd["rank"], "num_coefficients": cd["num_coefficients"],
            "num_constants": cd["num_constants"], "positions": cd["positions"], "points_len": cd["points_len"],
        }
        mtext = dict(model, num_components=int(mnc), points_len=int(mP) * int(mpd))
        for k in ("entity_type", "sizeA"):
            mtext.pop(k)
        if ctext != mtext:
            chk.disagree("generated ufcx_expression vs exprDesc", {"case": name, "model": mtext, "impl": ctext})
        # --- the property's own oracle: the descriptor must describe what the kernel reads
        oc, rc = info["orig_coeffs"], info["coeffs"]
        if not (len(cd["positions"]) == cd["num_coefficients"] == len(rc) and all(oc[p] == rc[i] for i, p in enumerate(cd["positions"]))):
            chk.violation(f"exprdesc:positions:{name}", "original_coefficient_positions of an expression do not identify its coefficients",
                          {"case": name, "orig": oc, "reduced": rc, "positions": cd["positions"]})
        if cd["num_constants"] != len(info["orig_consts"]):
            # c is laid out with ALL constants of the original expression (original_constant_offsets);
            # the descriptor announces fewer => a caller packing `num_constants` constants under-allocates c
            slots_named = sum(_prod(k.ufl_shape) for k in info["consts"])
            chk.violation("exprdesc:num_constants:dropped-constant",
                          "ufcx_expression.num_constants/constant_names count the constants left after preprocessing, "
                          "but the kernel indexes c by the offsets of ALL constants of the original expression",
                          {"case": name, "ufl": str(expr), "points": pts.tolist(), "num_constants": cd["num_constants"],
                           "constants_in_layout": len(info["orig_consts"]), "layout_shapes": shapes,
                           "kernel_reads_c": cd["c_reads"], "slots_of_named_constants": slots_named})
        if cd["c_reads"] and max(cd["c_reads"]) >= int(ktotal):
            chk.violation(f"exprdesc:c-out-of-layout:{name}", "kernel reads c beyond the constants of the original expression",
                          {"case": name, "reads": cd["c_reads"], "extent": int(ktotal)})
        nontrivial = impl["rank"] == 1 or len(impl["value_shape"]) > 0 or impl["entity_type"] == "facet" or impl["positions"] != list(range(len(oc)))
        chk.case("c04-descriptor", key=(f"{name}|P{impl['num_points']}|pd{impl['entity_dimension']}|{impl['value_shape']}|r{impl['rank']}|{impl['positions']}" if nontrivial else None),
                 sample={"case": name, "descriptor": ctext})
        done += 1
        if len(jit_batch) < (6 if quick else 20) and not name.startswith("gen_expr"):
            jit_batch.append((name, (expr, pts), mtext))
    # --- read back through cffi (one compile for the whole batch)
    if jit_batch:
        with pipeline.TmpCache() as d:
            objs, mod, _ = pipeline.jit_expressions([b[1] for b in jit_batch], d, cffi_extra_compile_args=["-O0"])
            ffi = mod.ffi
            for (name, (expr, pts), mtext), o in zip(jit_batch, objs):
                got = {
                    "num_points": o.num_points, "entity_dimension": o.entity_dimension,
                    "value_shape": [o.value_shape[i] for i in range(o.num_components)],
                    "num_components": o.num_components, "rank": o.rank, "num_coefficients": o.num_coefficients,
                    "num_constants": o.num_constants,
                    "positions": [o.original_coefficient_positions[i] for i in range(o.num_coefficients)],
                    "points_len": mtext["points_len"],
                }
                if got != mtext:
                    chk.disagree("compiled ufcx_expression vs exprDesc", {"case": name, "model": mtext, "impl": got})
                gp = [o.points[i] for i in range(mtext["points_len"])]
                if not np.array_equal(np.asarray(gp, dtype=float), np.asarray(pts, dtype=float).flatten()):
                    chk.violation(f"exprdesc:points:{name}", "ufcx_expression.points differ from the points the expression was compiled for",
                                  {"case": name, "points": pts.tolist(), "descriptor": gp})
                names = [ffi.string(o.coefficient_names[i]).decode() for i in range(o.num_coefficients)]
                knames = [ffi.string(o.constant_names[i]).decode() for i in range(o.num_constants)]
                if names != [f"w{i}" for i in range(o.num_coefficients)] or knames != [f"c{i}" for i in range(o.num_constants)]:
                    chk.disagree("expression name maps", {"case": name, "coefficient_names": names, "constant_names": knames})
                dom = _domain_of(expr)
                ch = dom.ufl_coordinate_element().basix_hash() if dom is not None else 0
                if int(o.coordinate_element_hash) != int(ch) % (1 << 64):
                    chk.violation(f"exprdesc:coordinate_element_hash:{name}", "coordinate_element_hash differs from the mesh's coordinate element",
                                  {"case": name, "descriptor": int(o.coordinate_element_hash), "expected": int(ch)})
                chk.case("c04-cffi", key=name)
    return done
