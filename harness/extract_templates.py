"""Translator part of the CLI cluster (C20): the code TEMPLATES of /repo as Lean data.

  /repo/ffcx/codegeneration/{C,numba}/*_template.py  ->  lean/FfcxModel/Generated/TemplatePieces.lean

Every module-level string of every `*_template` module is split with `string.Formatter().parse`
(the function `common.template_keys` uses) into literal characters and `{name}` fields; the pieces
are re-assembled and compared with the template byte by byte before anything is written.  A field
with a conversion or a format spec is outside the model and reported.

`Recorder` replaces the template strings of the real modules by `str` subclasses that record the
mapping handed to `.format(...)` / `.format_map(...)` and the text that comes out, so that a real
run yields, per generated block, the real filling of every hole.

The file is rewritten only when its content changes.
"""
import contextlib
import importlib
import string

from . import extract_names as X

LANGS = ("C", "numba")
KINDS = ("form", "integral", "expression", "file")

# Holes filled with whole comment / preprocessor lines (mirrors `Tpl.holeClass … = lines`; if the two
# disagree the symbolic run of the Lean model fails and the build of FfcxProofs.C20 breaks).
LINES_HOLES = ("options", "extra_c_includes")

# (declaration attribute, implementation attribute) per template module of the C backend: what
# <kind>.generator returns as (declaration, implementation).  Checked against the recorded calls.
C_PAIRS = {
    "form": [("declaration", "factory")],
    "integral": [("declaration", "factory")],
    "expression": [("declaration", "factory")],
    "file": [("declaration_pre", "implementation_pre"), ("declaration_post", "implementation_post")],
}


def template_module(lang, kind):
    return importlib.import_module(f"ffcx.codegeneration.{lang}.{kind}_template")


def template_strings():
    """{(lang, kind, attr): template string} — every public module-level str of the template modules."""
    out = {}
    for lang in LANGS:
        for kind in KINDS:
            mod = template_module(lang, kind)
            for attr, val in vars(mod).items():
                if attr.startswith("_") or not isinstance(val, str):
                    continue
                out[(lang, kind, attr)] = str(val)
    return out


def pieces(template: str):
    """[("lit", text) | ("hole", name) | ("holeNL", name)], problems."""
    out, problems = [], []
    for lit, field, spec, conv in string.Formatter().parse(template):
        if lit:
            out.append(("lit", lit))
        if field is None:
            continue
        if spec or conv or not field or not field.replace("_", "a").isalnum():
            problems.append(f"replacement field {{{field}!{conv}:{spec}}} is outside the template model")
        out.append(("hole", field))
    # a lines-class hole followed by a newline becomes one symbol
    merged = []
    i = 0
    while i < len(out):
        k, v = out[i]
        if k == "hole" and v in LINES_HOLES and i + 1 < len(out) and out[i + 1][0] == "lit" and out[i + 1][1].startswith("\n"):
            merged.append(("holeNL", v))
            rest = out[i + 1][1][1:]
            if rest:
                merged.append(("lit", rest))
            i += 2
        else:
            merged.append((k, v))
            i += 1
    return merged, problems


def reassemble(ps) -> str:
    """The template string the pieces stand for (braces re-escaped)."""
    s = []
    for k, v in ps:
        if k == "lit":
            s.append(v.replace("{", "{{").replace("}", "}}"))
        elif k == "hole":
            s.append("{" + v + "}")
        else:
            s.append("{" + v + "}\n")
    return "".join(s)


def instantiate(ps, filling) -> str:
    """Python reference of `Tpl.inst` (used only to cross-check the driver)."""
    s = []
    for k, v in ps:
        s.append(v if k == "lit" else filling[v] if k == "hole" else filling[v] + "\n")
    return "".join(s)


def lean_name(lang, kind, attr):
    return f"{lang.lower()}_{kind}_{attr}"


def tables():
    """(entries, pairs, problems): entries = [(lang, kind, attr, pieces)], pairs = [(kind, decl attr, impl attr)]."""
    problems = []
    entries = []
    strs = template_strings()
    for (lang, kind, attr), t in sorted(strs.items()):
        ps, pr = pieces(t)
        problems += [f"{lang}/{kind}_template.{attr}: {p}" for p in pr]
        if reassemble(ps) != t:
            problems.append(f"{lang}/{kind}_template.{attr}: pieces do not re-assemble to the template string")
        entries.append((lang, kind, attr, ps))
    pairs = []
    paired = set()
    for kind, lst in C_PAIRS.items():
        for da, ia in lst:
            if ("C", kind, da) not in strs or ("C", kind, ia) not in strs:
                problems.append(f"C/{kind}_template: expected templates {da} / {ia} not found")
                continue
            pairs.append((kind, da, ia))
            paired |= {(kind, da), (kind, ia)}
    for lang, kind, attr in strs:
        if lang == "C" and (kind, attr) not in paired:
            problems.append(f"C/{kind}_template.{attr}: a template string that is not part of a known declaration/implementation pair")
    return entries, pairs, problems


def render(entries, pairs) -> str:
    L = [
        "/- GENERATED by harness/extract_templates.py from the template strings of",
        "   /repo/ffcx/codegeneration/{C,numba}/*_template.py (string.Formatter().parse). DO NOT EDIT. -/",
        "import FfcxModel.Cli.Templates",
        "",
        "namespace Ffcx.Generated.TemplatePieces",
        "open Ffcx.Cli.Tpl",
        "",
    ]
    for lang, kind, attr, ps in entries:
        parts = []
        for k, v in ps:
            if k == "lit":
                parts.append(f"lits {X.lean_chars(v)}")
            elif k == "hole":
                parts.append(f"[Sym.hole {X.lean_string(v)}]")
            else:
                parts.append(f"[Sym.holeNL {X.lean_string(v)}]")
        body = "\n    ++ ".join(parts) if parts else "[]"
        L.append(f"def {lean_name(lang, kind, attr)} : Template :=\n  {body}")
        L.append("")
    L.append("/-- Every template string of both backends: (language, kind, attribute, template). -/")
    L.append("def table : List (String × String × String × Template) := [")
    L.append(",\n".join(f"  ({X.lean_string(lang)}, {X.lean_string(kind)}, {X.lean_string(attr)}, {lean_name(lang, kind, attr)})"
                        for lang, kind, attr, _ in entries))
    L.append("]")
    L.append("")
    L.append("/-- The (declaration, implementation) template pairs of the C backend: (kind, declaration attribute,")
    L.append("implementation attribute, declaration, implementation). Complete: every string of the C template")
    L.append("modules is in exactly one pair (checked by the extractor). -/")
    L.append("def cPairs : List (String × String × String × Template × Template) := [")
    L.append(",\n".join(f"  ({X.lean_string(kind)}, {X.lean_string(da)}, {X.lean_string(ia)}, {lean_name('C', kind, da)}, {lean_name('C', kind, ia)})"
                        for kind, da, ia in pairs))
    L.append("]")
    L += ["", "end Ffcx.Generated.TemplatePieces", ""]
    return "\n".join(L)


def regenerate():
    """Write Generated/TemplatePieces.lean (if changed). Returns dict(entries, pairs, problems, changed)."""
    entries, pairs, problems = tables()
    changed = X.write_if_changed(X.GEN / "TemplatePieces.lean", render(entries, pairs))
    return {"entries": entries, "pairs": pairs, "problems": problems, "changed": changed}


# --------------------------------------------------------------------------- recording real fillings
class _Rec(str):
    """A template string that records how it is instantiated."""

    def __new__(cls, value, key, log):
        o = super().__new__(cls, value)
        o._key, o._log = key, log
        return o

    def _note(self, mapping, out):
        fill = {}
        for _lit, field, _spec, _conv in string.Formatter().parse(str(self)):
            if field is not None and field in mapping:
                fill[field] = format(mapping[field], "")
        self._log.append({"template": self._key, "filling": fill, "text": out,
                          "extra_keys": sorted(set(map(str, mapping)) - set(fill))})

    def format(self, *args, **kwargs):
        out = str.format(self, *args, **kwargs)
        self._note(kwargs, out)
        return out

    def format_map(self, mapping):
        out = str.format_map(self, mapping)
        self._note(dict(mapping), out)
        return out


@contextlib.contextmanager
def Recorder():
    """Record every instantiation of a template string of both backends; yields the log (a list of
    {"template": (lang, kind, attr), "filling": {hole: text}, "text": output}, in call order)."""
    log = []
    saved = []
    try:
        for (lang, kind, attr), t in template_strings().items():
            mod = template_module(lang, kind)
            saved.append((mod, attr, getattr(mod, attr)))
            setattr(mod, attr, _Rec(t, (lang, kind, attr), log))
        yield log
    finally:
        for mod, attr, val in saved:
            setattr(mod, attr, val)


if __name__ == "__main__":
    r = regenerate()
    print("changed:", r["changed"], "problems:", r["problems"])
