"""Corpus of UFL forms / expressions (DESIGN.md Appendix D).

Every entry is built lazily (`Entry.build()` -> list of UFL objects) so that UFL's
global counters are exercised in different orders by different checks.  `fixed()` is the
hand-written part, `generated(seed, n)` the seeded random part, `demos()` the repo's demos.
"""
import importlib.util
import random
from dataclasses import dataclass, field
from pathlib import Path

import basix
import basix.ufl
import numpy as np
import ufl
from ufl import (
    CellVolume, Circumradius, Coefficient, Constant, FacetArea, FacetNormal, FunctionSpace, Mesh,
    SpatialCoordinate, TestFunction, TrialFunction, avg, conditional, cos, curl, det, div, dot, dS,
    ds, dx, exp, grad, inner, jump, lt, gt, sin, sqrt, tr, as_vector,
)


@dataclass
class Entry:
    name: str
    build: object  # () -> list of ufl objects (forms) or list of (expr, points) for expressions
    kind: str = "form"  # "form" | "expression"
    tags: tuple = ()
    options: dict = field(default_factory=dict)


def mesh(cell, gdeg=1, gdim=None):
    tdim = basix.ufl.element("P", cell, 1).cell.topological_dimension() if False else {
        "interval": 1, "triangle": 2, "quadrilateral": 2, "tetrahedron": 3, "hexahedron": 3, "prism": 3, "pyramid": 3
    }[cell]
    gdim = gdim or tdim
    return Mesh(basix.ufl.element("P", cell, gdeg, shape=(gdim,)))


def space(cell, fam="P", deg=1, shape=None, gdeg=1, gdim=None, **kw):
    m = mesh(cell, gdeg, gdim)
    if shape is None:
        e = basix.ufl.element(fam, cell, deg, **kw)
    else:
        e = basix.ufl.element(fam, cell, deg, shape=shape, **kw)
    return m, FunctionSpace(m, e)


# --------------------------------------------------------------------------- fixed forms
def _mass(cell, deg=1, gdeg=1, gdim=None):
    def b():
        m, V = space(cell, "P", deg, gdeg=gdeg, gdim=gdim)
        u, v = TrialFunction(V), TestFunction(V)
        return [inner(u, v) * dx]
    return b


def _laplace_coef(cell, deg=1, gdeg=1):
    def b():
        m, V = space(cell, "P", deg, gdeg=gdeg)
        u, v = TrialFunction(V), TestFunction(V)
        f = Coefficient(V)
        k = Constant(m)
        return [k * f * inner(grad(u), grad(v)) * dx + u * v * dx]
    return b


def _rhs(cell, deg=2):
    def b():
        m, V = space(cell, "P", deg)
        v = TestFunction(V)
        f = Coefficient(V)
        g = Coefficient(V)
        return [f * g * v * dx]
    return b


def _functional(cell):
    def b():
        m, V = space(cell, "P", 2)
        f = Coefficient(V)
        x = SpatialCoordinate(m)
        return [f * f * x[0] * dx]
    return b


def _vector_elasticity(cell):
    def b():
        d = 2 if cell in ("triangle", "quadrilateral") else 3
        m, V = space(cell, "P", 1, shape=(d,))
        u, v = TrialFunction(V), TestFunction(V)
        eps = lambda w: 0.5 * (grad(w) + grad(w).T)
        return [inner(eps(u), eps(v)) * dx + div(u) * div(v) * dx]
    return b


def _mixed_stokes():
    def b():
        m = mesh("triangle")
        P2 = basix.ufl.element("P", "triangle", 2, shape=(2,))
        P1 = basix.ufl.element("P", "triangle", 1)
        W = FunctionSpace(m, basix.ufl.mixed_element([P2, P1]))
        (u, p) = ufl.TrialFunctions(W)
        (v, q) = ufl.TestFunctions(W)
        return [inner(grad(u), grad(v)) * dx - div(v) * p * dx + q * div(u) * dx]
    return b


def _hdiv_mass(cell="triangle", fam="RT", deg=1):
    def b():
        m, V = space(cell, fam, deg)
        u, v = TrialFunction(V), TestFunction(V)
        return [inner(u, v) * dx]
    return b


def _hcurl_curl():
    def b():
        m, V = space("tetrahedron", "N1curl", 1)
        u, v = TrialFunction(V), TestFunction(V)
        return [inner(curl(u), curl(v)) * dx + inner(u, v) * dx]
    return b


def _facet_ext(cell, deg=1):
    def b():
        m, V = space(cell, "P", deg)
        u, v = TrialFunction(V), TestFunction(V)
        n = FacetNormal(m)
        f = Coefficient(V)
        return [f * u * v * ds + inner(grad(u), n) * v * ds(1)]
    return b


def _facet_int(cell, deg=1, fam="DP"):
    def b():
        m, V = space(cell, fam, deg)
        u, v = TrialFunction(V), TestFunction(V)
        n = FacetNormal(m)
        f = Coefficient(V)
        h = avg(CellVolume(m))
        return [inner(jump(u, n), jump(v, n)) * dS + avg(f) * inner(avg(grad(u)), jump(v, n)) * dS
                + h * u("+") * v("-") * dS]
    return b


def _facet_int_hex():
    def b():
        m, V = space("hexahedron", "DQ", 1)
        u, v = TrialFunction(V), TestFunction(V)
        n = FacetNormal(m)
        f = Coefficient(V)
        return [inner(jump(u, n), jump(v, n)) * dS + avg(f) * inner(avg(grad(u)), jump(v, n)) * dS]
    return b


def _facet_int_mixed():
    def b():
        m = mesh("triangle")
        P2 = basix.ufl.element("P", "triangle", 2, shape=(2,))
        P1 = basix.ufl.element("P", "triangle", 1)
        W = FunctionSpace(m, basix.ufl.mixed_element([P2, P1]))
        (u, p), (v, q) = ufl.TrialFunctions(W), ufl.TestFunctions(W)
        w = Coefficient(W)
        n = FacetNormal(m)
        a = (p("-") * q("+") + inner(u("-"), v("-")) + inner(jump(u), n("+")) * avg(q) + p("+") * v("-")[1]) * dS
        L = (w("-")[2] * q("-") + inner(w("-"), ufl.as_vector((v("+")[0], v("-")[1], q("-")))) + w("+")[1] * q("+")) * dS
        return [a, L]
    return b


def _facet_int_cellsize(cell):
    def b():
        m, V = space(cell, "P", 1)
        v = TestFunction(V)
        f = Coefficient(V)
        h = ufl.CellDiameter(m)
        r = ufl.Circumradius(m)
        forms = [(h("-") * v("+") + h("+") * r("-") * v("-") + ufl.MaxCellEdgeLength(m)("-") * f("-") * v("+")
                  + ufl.MinCellEdgeLength(m)("+") * f("+") * v("-")) * dS]
        return forms
    return b


def _int_facet_two_rules(order):
    def b():
        m, V = space("triangle", "P", 1)
        u, v = TrialFunction(V), TestFunction(V)
        two = u("+") * v("-") * dS(degree=2)
        one = inner(grad(u)("+"), grad(v)("+")) * dS(degree=4)
        dg0 = inner(grad(u)("-"), grad(v)("-")) * dS(degree=0)
        if order == 0:
            return [two + one + dg0]
        if order == 1:
            return [dg0 + one + two]
        if order == 2:
            return [two + one]
        f = Coefficient(V)
        return [f("+") * u("+") * v("-") * dS(degree=3) + f("-") * u("-") * v("-") * dS(degree=1)]
    return b


def _one_sided_dS():
    def b():
        m, V = space("triangle", "P", 1)
        v = TestFunction(V)
        f = Coefficient(V)
        return [f("+") * v("+") * dS]
    return b


def _vertex():
    def b():
        m, V = space("triangle", "P", 1)
        v = TestFunction(V)
        f = Coefficient(V)
        return [f * v * ufl.dP]
    return b


def _math(cell="triangle"):
    def b():
        m, V = space(cell, "P", 1)
        v = TestFunction(V)
        f = Coefficient(V)
        g = Coefficient(V)
        x = SpatialCoordinate(m)
        return [(sin(f) + cos(g) * exp(f) + sqrt(f * f + 1.0) + ufl.ln(2 + f * f) + abs(g) + f ** 3
                 + ufl.atan2(f, g + 3) + ufl.tanh(f)) * v * dx]
    return b


def _conditional():
    def b():
        m, V = space("triangle", "P", 1)
        v = TestFunction(V)
        f = Coefficient(V)
        g = Coefficient(V)
        c1 = conditional(lt(f, g), f, g * g)
        c2 = conditional(ufl.And(gt(f, 0.25), ufl.Not(ufl.eq(g, 1.0))), 1.0, f)
        c3 = ufl.max_value(f, g) + ufl.min_value(f, 0.5)
        return [(c1 + c2 + c3) * v * dx]
    return b


def _nonaffine(cell="quadrilateral", deg=2):
    def b():
        m, V = space(cell, "Q" if cell in ("quadrilateral", "hexahedron") else "P", deg)
        u, v = TrialFunction(V), TestFunction(V)
        x = SpatialCoordinate(m)
        return [(1 + x[0] * x[1]) * inner(grad(u), grad(v)) * dx]
    return b


def _p2geom():
    def b():
        m, V = space("triangle", "P", 2, gdeg=2)
        u, v = TrialFunction(V), TestFunction(V)
        return [inner(grad(u), grad(v)) * dx + u * v * ds]
    return b


def _manifold():
    def b():
        m, V = space("triangle", "P", 1, gdim=3)
        u, v = TrialFunction(V), TestFunction(V)
        return [inner(grad(u), grad(v)) * dx + u * v * dx]
    return b


def _manifold_interval():
    def b():
        m, V = space("interval", "P", 2, gdim=2)
        u, v = TrialFunction(V), TestFunction(V)
        f = Coefficient(V)
        return [f * u * v * dx]
    return b


def _multi_rule():
    def b():
        m, V = space("triangle", "P", 2)
        v = TestFunction(V)
        f = Coefficient(V)
        g = Coefficient(V)
        return [f * v * dx(degree=1) + f * g * v * dx(degree=4) + g * v * dx(degree=2, scheme="vertex") ]
    return b


def _single_point_rules():
    def b():
        # two DIFFERENT single-point rules in one integral (centroid rule and a one-point quadrature element), sharing f and x
        m, V = space("triangle", "P", 2)
        Q = FunctionSpace(m, basix.ufl.quadrature_element("triangle", points=np.array([[0.2, 0.1]]), weights=np.array([0.5])))
        v = TestFunction(V)
        f = Coefficient(V)
        fq = Coefficient(Q)
        x = SpatialCoordinate(m)
        return [f * x[0] * v * dx(degree=1) + fq * f * f * x[1] * v * dx, f * x[0] * dx(degree=0) + fq * f * x[0] * x[1] * dx]
    return b


def _multi_rule_coefs():
    def b():
        # each coefficient occurs under ONE rule only (the first, the middle, the last)
        m, V = space("triangle", "P", 1)
        v = TestFunction(V)
        f, g, h = Coefficient(V), Coefficient(V), Coefficient(V)
        return [f * v * dx(degree=2) + g * g * v * dx(degree=4) + h * v * dx(degree=1),
                f * v * ds(degree=3) + g * v * ds(degree=1) + h("+") * v("-") * dS(degree=2) + g("-") * g("+") * v("+") * dS(degree=4)]
    return b


def _quadrature_element_mixed_rules():
    def b():
        m, V = space("triangle", "P", 1)
        Q = FunctionSpace(m, basix.ufl.quadrature_element("triangle", degree=2))
        v = TestFunction(V)
        fq = Coefficient(Q)
        g = Coefficient(V)
        x = SpatialCoordinate(m)
        return [fq * x[0] * v * dx + g * g * g * v * dx(degree=4) + g * v * dx(degree=1)]
    return b


def _subdomains():
    def b():
        m, V = space("triangle", "P", 1)
        u, v = TrialFunction(V), TestFunction(V)
        f = Coefficient(V)
        g = Coefficient(V)
        return [u * v * dx(0) + 2 * f * u * v * dx((1, 2)) + g * u * v * dx + u * v * ds(3) + f * u * v * ds]
    return b


def _tensor_constant():
    def b():
        m, V = space("triangle", "P", 1)
        u, v = TrialFunction(V), TestFunction(V)
        K = Constant(m, shape=(2, 2))
        b_ = Constant(m, shape=(2,))
        s = Constant(m)
        return [inner(K * grad(u), grad(v)) * dx + s * dot(b_, grad(u)) * v * dx]
    return b


def _tensor_constant_nonsquare():
    def b():
        m, V = space("triangle", "P", 1)
        u, v = TrialFunction(V), TestFunction(V)
        K = Constant(m, shape=(2, 3))
        T = Constant(m, shape=(2, 2, 3))
        s = Constant(m)
        f = Coefficient(V)
        return [(K[1, 0] + 2 * K[0, 2] + T[1, 0, 2] + 3 * T[0, 1, 1] + s) * inner(grad(u), grad(v)) * dx
                + K[1, 2] * T[1, 1, 0] * f * u * v * ds]
    return b


def _piola_nonaffine(kind):
    def b():
        if kind == "rt_p2geom":
            m, V = space("triangle", "RT", 1, gdeg=2)
            Q = FunctionSpace(m, basix.ufl.element("DP", "triangle", 0))
            u, q = TrialFunction(V), TestFunction(Q)
            v = TestFunction(V)
            return [div(u) * q * dx, inner(u, v) * dx + div(u) * div(v) * dx]
        if kind == "rtcf_quad":
            m, V = space("quadrilateral", "RTCF", 1)
            u, v = TrialFunction(V), TestFunction(V)
            return [div(u) * div(v) * dx + inner(u, v) * dx]
        if kind == "hessian_quad":
            m, V = space("quadrilateral", "Q", 2)
            u, v = TrialFunction(V), TestFunction(V)
            return [inner(grad(grad(u)), grad(grad(v))) * dx]
        m, V = space("hexahedron", "NCE", 1)
        u, v = TrialFunction(V), TestFunction(V)
        return [inner(curl(u), curl(v)) * dx]
    return b


def _derivative_drop():
    def b():
        m, V = space("triangle", "P", 1)
        f = Coefficient(V)
        g = Coefficient(V)
        h = Coefficient(V)
        v = TestFunction(V)
        J = (f * f * g + h) * dx
        return [ufl.derivative(J, f, v)]  # h drops out
    return b


def _derivative_drop_first():
    def b():
        m, V = space("triangle", "P", 2)
        h = Coefficient(V)  # created (numbered) first, drops out of the derivative
        f = Coefficient(V)
        g = Coefficient(space("triangle", "P", 1)[1]) if False else Coefficient(V)
        v = TestFunction(V)
        J = (h + f * f * g) * dx + h * h * ds
        return [ufl.derivative(J, f, v)]
    return b


def _blocked_symmetric():
    def b():
        m = mesh("triangle")
        e = basix.ufl.element("P", "triangle", 1, shape=(2, 2), symmetry=True)
        V = FunctionSpace(m, e)
        u, v = TrialFunction(V), TestFunction(V)
        return [inner(u, v) * dx]
    return b


def _enriched_mini():
    def b():
        m = mesh("triangle")
        P1 = basix.ufl.element("P", "triangle", 1)
        B = basix.ufl.element("Bubble", "triangle", 3)
        V = FunctionSpace(m, basix.ufl.enriched_element([P1, B]))
        u, v = TrialFunction(V), TestFunction(V)
        return [inner(grad(u), grad(v)) * dx]
    return b


def _real_element():
    def b():
        m = mesh("triangle")
        P1 = basix.ufl.element("P", "triangle", 1)
        R = basix.ufl.real_element("triangle", ())
        V = FunctionSpace(m, P1)
        RS = FunctionSpace(m, R)
        r = TrialFunction(RS)
        v = TestFunction(V)
        lam = Coefficient(RS)
        return [r * v * dx + lam * r * v * ds]
    return b


def _quadrature_element():
    def b():
        m = mesh("triangle")
        P1 = basix.ufl.element("P", "triangle", 1)
        Q = basix.ufl.quadrature_element("triangle", degree=2)
        V = FunctionSpace(m, P1)
        VQ = FunctionSpace(m, Q)
        v = TestFunction(V)
        q = Coefficient(VQ)
        return [q * v * dx(degree=2)]
    return b


def _prism():
    def b():
        m, V = space("prism", "P", 1)
        u, v = TrialFunction(V), TestFunction(V)
        return [inner(grad(u), grad(v)) * dx + u * v * ds]
    return b


def _geometry_quantities(cell="triangle"):
    def b():
        m, V = space(cell, "P", 1)
        v = TestFunction(V)
        n = FacetNormal(m)
        x = SpatialCoordinate(m)
        return [(CellVolume(m) + Circumradius(m)) * v * dx + (FacetArea(m) * n[0] + x[1]) * v * ds]
    return b


def _hex_mass():
    return _mass("hexahedron", 1)


def _complex_sesq():
    def b():
        m, V = space("triangle", "P", 1)
        u, v = TrialFunction(V), TestFunction(V)
        f = Coefficient(V)
        return [f * inner(grad(u), grad(v)) * dx + ufl.conj(f) * ufl.real(f) * inner(u, v) * dx]
    return b


def _complex_pow():
    def b():
        m, V = space("triangle", "P", 1)
        v = TestFunction(V)
        f = Coefficient(V)
        g = Coefficient(V)
        # complex base with real non-integer exponent, square root and exponential of complex data
        return [(f**1.5 + ufl.sqrt(g) * ufl.exp(f) + g**2) * ufl.conj(v) * dx]
    return b


def _complex_literal():
    def b():
        m, V = space("triangle", "P", 1)
        u, v = TrialFunction(V), TestFunction(V)
        f = Coefficient(V)
        # literals with both parts non-zero as operands of *, / and unary minus; a purely imaginary divisor
        return [(1.5 + 2j) * f * inner(u, v) * dx - inner(grad(u), grad(v)) / (0.5 - 1j) * dx + inner(f * u / 2j, v) * dx,
                -(2 - 3j) * f * ufl.conj(v) * dx]
    return b


def _complex_const_conj():
    def b():
        m, V = space("triangle", "P", 1)
        u, v = TrialFunction(V), TestFunction(V)
        f = Coefficient(V)
        c = Constant(m)
        # complex constants / literals multiplying the TEST function sit inside the conjugated slot
        return [inner(u, c * v) * dx + inner(u, (2 + 3j) * v) * dx, inner(f, c * v) * dx + inner(grad(f)[0], (1 - 2j) * c * v) * dx]
    return b


def fixed():
    E = Entry
    return [
        E("mass_interval_p2", _mass("interval", 2), tags=("cell",)),
        E("mass_tri_p1", _mass("triangle", 1), tags=("cell",)),
        E("laplace_coef_tri_p2", _laplace_coef("triangle", 2), tags=("cell", "coef", "const")),
        E("laplace_coef_tet_p1", _laplace_coef("tetrahedron", 1), tags=("cell", "coef", "const")),
        E("rhs_tri_p2", _rhs("triangle", 2), tags=("cell", "coef")),
        E("functional_tri", _functional("triangle"), tags=("cell", "coef")),
        E("elasticity_tri", _vector_elasticity("triangle"), tags=("cell", "blocked")),
        E("stokes_mixed", _mixed_stokes(), tags=("cell", "mixed")),
        E("rt_mass", _hdiv_mass("triangle", "RT", 1), tags=("cell", "piola")),
        E("n1curl_tet", _hcurl_curl(), tags=("cell", "piola")),
        E("rt_div_p2geom", _piola_nonaffine("rt_p2geom"), tags=("cell", "piola", "nonaffine")),
        E("rtcf_quad", _piola_nonaffine("rtcf_quad"), tags=("cell", "piola", "nonaffine")),
        E("hessian_quad", _piola_nonaffine("hessian_quad"), tags=("cell", "nonaffine")),
        E("nce_hex", _piola_nonaffine("nce_hex"), tags=("cell", "piola", "nonaffine")),
        E("ext_facet_tri", _facet_ext("triangle", 1), tags=("facet",)),
        E("ext_facet_tet", _facet_ext("tetrahedron", 1), tags=("facet",)),
        E("ext_facet_quad", _facet_ext("quadrilateral", 1), tags=("facet",)),
        E("int_facet_tri", _facet_int("triangle", 1), tags=("interior",)),
        E("int_facet_tet", _facet_int("tetrahedron", 1), tags=("interior",)),
        E("int_facet_tri_p2", _facet_int("triangle", 2, "P"), tags=("interior",)),
        E("int_facet_hex", _facet_int_hex(), tags=("interior",)),
        E("int_facet_mixed", _facet_int_mixed(), tags=("interior", "mixed")),
        E("int_facet_cellsize_tri", _facet_int_cellsize("triangle"), tags=("interior", "geometry")),
        E("int_facet_cellsize_tet", _facet_int_cellsize("tetrahedron"), tags=("interior", "geometry")),
        E("int_facet_interval", _facet_int("interval", 1), tags=("interior",)),
        E("one_sided_dS", _one_sided_dS(), tags=("interior",)),
        E("int_facet_two_rules_a", _int_facet_two_rules(0), tags=("interior", "rules")),
        E("int_facet_two_rules_b", _int_facet_two_rules(1), tags=("interior", "rules")),
        E("int_facet_two_rules_c", _int_facet_two_rules(2), tags=("interior", "rules")),
        E("int_facet_two_rules_d", _int_facet_two_rules(3), tags=("interior", "rules")),
        E("vertex_tri", _vertex(), tags=("vertex",)),
        E("math_tri", _math(), tags=("cell", "math")),
        E("conditional_tri", _conditional(), tags=("cell", "cond")),
        E("nonaffine_quad", _nonaffine("quadrilateral", 2), tags=("cell", "nonaffine")),
        E("mass_hex", _hex_mass(), tags=("cell",)),
        E("p2geom_tri", _p2geom(), tags=("cell", "facet", "nonaffine")),
        E("manifold_tri3d", _manifold(), tags=("cell", "manifold")),
        E("manifold_interval2d", _manifold_interval(), tags=("cell", "manifold")),
        E("multi_rule", _multi_rule(), tags=("cell", "rules")),
        E("multi_rule_coefs", _multi_rule_coefs(), tags=("cell", "facet", "interior", "rules", "coef")),
        E("single_point_rules", _single_point_rules(), tags=("cell", "rules", "quadelem")),
        E("quadrature_element_mixed_rules", _quadrature_element_mixed_rules(), tags=("cell", "rules", "quadelem")),
        E("subdomains", _subdomains(), tags=("cell", "facet", "subdomains")),
        E("tensor_constant", _tensor_constant(), tags=("cell", "const")),
        E("tensor_constant_nonsquare", _tensor_constant_nonsquare(), tags=("cell", "facet", "const")),
        E("derivative_drop", _derivative_drop(), tags=("cell", "coef")),
        E("derivative_drop_first", _derivative_drop_first(), tags=("cell", "coef")),
        E("symmetric_blocked", _blocked_symmetric(), tags=("cell", "blocked")),
        E("mini_enriched", _enriched_mini(), tags=("cell", "enriched")),
        E("real_element", _real_element(), tags=("cell", "real")),
        E("quadrature_element", _quadrature_element(), tags=("cell", "quadelem")),
        E("prism", _prism(), tags=("cell", "facet", "prism")),
        E("geometry_tri", _geometry_quantities("triangle"), tags=("cell", "facet", "geometry")),
        E("geometry_tet", _geometry_quantities("tetrahedron"), tags=("cell", "facet", "geometry")),
    ]


def complex_forms():
    """Forms that only make sense (or differ) in complex mode."""
    E = Entry
    return [E("complex_sesq", _complex_sesq(), tags=("cell", "complex")),
            E("complex_helmholtz", _complex_helmholtz(), tags=("cell", "facet", "complex")),
            E("complex_pow", _complex_pow(), tags=("cell", "complex")),
            E("complex_literal", _complex_literal(), tags=("cell", "complex")),
            E("complex_const_conj", _complex_const_conj(), tags=("cell", "complex")),
            E("complex_rhs_facets", _complex_rhs_facets(), tags=("cell", "facet", "interior", "complex"))]


def _complex_rhs_facets():
    def b():
        m, V = space("triangle", "P", 1)
        v = TestFunction(V)
        f = Coefficient(V)
        g = Coefficient(V)
        n = FacetNormal(m)
        return [inner(f * g, v) * dx + inner(ufl.conj(f) * g, v) * ds + inner(jump(f), avg(v)) * dS
                + inner(dot(grad(f), n), v) * ds]
    return b


def _complex_helmholtz():
    def b():
        m, V = space("triangle", "P", 2)
        u, v = TrialFunction(V), TestFunction(V)
        k = Constant(m)
        f = Coefficient(V)
        return [inner(grad(u), grad(v)) * dx - k * k * inner(u, v) * dx + 1j * k * inner(u, v) * ds
                + ufl.imag(f) * ufl.real(k) * inner(u, v) * dx, inner(f, v) * dx + 1j * k * inner(f, v) * ds]
    return b


# ----------------------------------------------------------------------- expressions
def _expr_grad(cell="triangle"):
    def b():
        m, V = space(cell, "P", 2)
        f = Coefficient(V)
        pts = np.array([[0.25, 0.25], [0.5, 0.1], [0.0, 1.0]]) if cell == "triangle" else np.array([[0.1, 0.2, 0.3]])
        return [(grad(f), pts)]
    return b


def _expr_rank1():
    def b():
        m, V = space("triangle", "P", 1)
        u = TrialFunction(V)
        k = Constant(m)
        f = Coefficient(V)
        pts = np.array([[0.25, 0.25], [0.5, 0.5]])
        return [(k * f * grad(u), pts)]
    return b


def _expr_tensor():
    def b():
        m, V = space("triangle", "P", 2, shape=(2,))
        f = Coefficient(V)
        pts = np.array([[0.3, 0.3]])
        return [(ufl.outer(f, f) + grad(f), pts)]
    return b


def _expr_facet():
    def b():
        m, V = space("triangle", "P", 1)
        f = Coefficient(V)
        n = FacetNormal(m)
        pts = np.array([[0.25], [0.75]])
        return [(f * n, pts)]
    return b


def _expr_facet_arg(cell):
    def b():
        m, V = space(cell, "P", 2)
        u = TrialFunction(V)
        f = Coefficient(V)
        x = SpatialCoordinate(m)
        pts = np.array([[0.2], [0.7], [0.45]]) if cell == "triangle" else np.array([[0.2, 0.1], [0.15, 0.6], [0.5, 0.3]])
        return [(as_vector([u, x[0] * u.dx(1) + f * u]), pts)]
    return b


def _expr_derivative_drop_first():
    def b():
        m, V = space("triangle", "P", 2)
        q = Coefficient(V)  # numbered first, vanishes in the derivative
        u = Coefficient(V)
        g = Coefficient(V)
        du = TrialFunction(V)
        pts = np.array([[0.3, 0.2], [0.1, 0.7]])
        return [(ufl.derivative(q + g * u**2 + u.dx(0), u, du), pts)]
    return b


def _expr_p2geom():
    def b():
        m, V = space("triangle", "P", 2, gdeg=2)
        f = Coefficient(V)
        x = SpatialCoordinate(m)
        pts = np.array([[0.2, 0.2], [0.6, 0.3]])
        return [(grad(f) * x[0] + as_vector([f, det(ufl.Jacobian(m))]), pts)]
    return b


def _expr_facet_tet():
    def b():
        m, V = space("tetrahedron", "P", 1)
        f = Coefficient(V)
        n = FacetNormal(m)
        pts = np.array([[0.25, 0.25], [0.6, 0.2]])
        return [(f * n + grad(f), pts)]
    return b


def _expr_rank1_div():
    def b():
        m, V = space("triangle", "P", 2, shape=(2,))
        u = TrialFunction(V)
        K = Constant(m, shape=(2, 2))
        pts = np.array([[0.3, 0.2], [0.1, 0.7], [0.5, 0.5]])
        return [(div(u) + inner(K, grad(u)), pts)]
    return b


def _expr_rank1_vector():
    def b():
        m, V = space("triangle", "P", 1, shape=(2,))
        u = TrialFunction(V)
        Q = FunctionSpace(m, basix.ufl.element("P", "triangle", 1))
        f = Coefficient(Q)
        pts = np.array([[0.3, 0.2], [0.1, 0.7]])
        return [(f * grad(u) + ufl.outer(u, u.dx(0)) * 0 + grad(u).T, pts)]
    return b


def _expr_interval():
    def b():
        m, V = space("interval", "P", 2)
        f = Coefficient(V)
        c = Constant(m)
        pts = np.array([[0.0], [0.3], [1.0]])
        return [(c * f.dx(0) + f * f, pts)]
    return b


def _expr_two():
    def b():
        m, V = space("triangle", "P", 1)
        f = Coefficient(V)
        g = Coefficient(V)
        pts = np.array([[0.25, 0.25]])
        return [(f * g, pts), (grad(g), np.array([[0.5, 0.25], [0.1, 0.1]]))]
    return b


def expressions():
    E = Entry
    return [
        E("expr_p2geom", _expr_p2geom(), kind="expression"),
        E("expr_facet_tet", _expr_facet_tet(), kind="expression"),
        E("expr_rank1_div", _expr_rank1_div(), kind="expression"),
        E("expr_rank1_vector", _expr_rank1_vector(), kind="expression"),
        E("expr_interval", _expr_interval(), kind="expression"),
        E("expr_two", _expr_two(), kind="expression"),
        E("expr_grad_tri", _expr_grad("triangle"), kind="expression"),
        E("expr_grad_tet", _expr_grad("tetrahedron"), kind="expression"),
        E("expr_rank1", _expr_rank1(), kind="expression"),
        E("expr_tensor", _expr_tensor(), kind="expression"),
        E("expr_facet", _expr_facet(), kind="expression"),
        E("expr_facet_arg_tri", _expr_facet_arg("triangle"), kind="expression"),
        E("expr_facet_arg_tet", _expr_facet_arg("tetrahedron"), kind="expression"),
        E("expr_derivative_drop_first", _expr_derivative_drop_first(), kind="expression"),
    ]


# ----------------------------------------------------------------------------- demos
def demos():
    """The repository's demo files; each yields its forms and expressions."""
    out = []
    ddir = Path("/repo/demo")
    for f in sorted(ddir.glob("*.py")):
        if f.name.startswith("test_"):
            continue

        def b(f=f):
            spec = importlib.util.spec_from_file_location(f"ffcxdemo_{f.stem}", f)
            mod = importlib.util.module_from_spec(spec)
            spec.loader.exec_module(mod)
            forms = []
            for name in ("a", "L", "M"):
                if hasattr(mod, name) and isinstance(getattr(mod, name), ufl.Form):
                    forms.append(getattr(mod, name))
            forms += [x for x in getattr(mod, "forms", []) if isinstance(x, ufl.Form)]
            return forms

        def bx(f=f):
            spec = importlib.util.spec_from_file_location(f"ffcxdemo_{f.stem}", f)
            mod = importlib.util.module_from_spec(spec)
            spec.loader.exec_module(mod)
            return [(e_, np.asarray(p_)) for e_, p_ in getattr(mod, "expressions", [])]

        src = f.read_text()
        opts = {"scalar_type": "complex128"} if f.stem == "ComplexPoisson" else {}   # sesquilinear demo: complex mode only
        has_forms = any(l.startswith(("a =", "L =", "M =", "forms =")) for l in src.splitlines())
        if has_forms:
            out.append(Entry(f"demo_{f.stem}", b, tags=("demo",), options=opts))
        if any(l.startswith("expressions =") for l in src.splitlines()):
            out.append(Entry(f"demo_{f.stem}" + ("_expr" if has_forms else ""), bx, kind="expression", tags=("demo",), options=opts))
    return out


# ------------------------------------------------------------------------ generated
_CELLS = ["interval", "triangle", "quadrilateral", "tetrahedron", "hexahedron"]


def _rand_scalar(rng, m, V, coefs, depth):
    """A random scalar-valued UFL expression over coefficients/geometry (no arguments)."""
    x = SpatialCoordinate(m)
    gd = len(x)
    leaves = [lambda: coefs[rng.randrange(len(coefs))], lambda: x[rng.randrange(gd)],
              lambda: float(rng.choice([0.5, 2.0, -1.0, 3.0, 0.25])),
              lambda: Constant(m) if rng.random() < 0.5 else coefs[0]]
    if depth <= 0:
        return rng.choice(leaves)()
    k = rng.randrange(8)
    a = _rand_scalar(rng, m, V, coefs, depth - 1)
    b = _rand_scalar(rng, m, V, coefs, depth - 1)
    if k == 0:
        return a + b
    if k == 1:
        return a * b
    if k == 2:
        return a - b
    if k == 3:
        return a / (2.0 + b * b)
    if k == 4:
        return rng.choice([sin, cos, exp])(a)
    if k == 5:
        return conditional(lt(a, b), a, b)
    if k == 6:
        return inner(grad(coefs[rng.randrange(len(coefs))]), grad(coefs[rng.randrange(len(coefs))]))
    return abs(a)


def generated(seed, n):
    """n seeded random forms (names carry the seed so they replay)."""
    out = []
    for i in range(n):
        def b(i=i):
            rng = random.Random(seed * 1000003 + i)
            cell = rng.choice(_CELLS)
            deg = rng.choice([1, 1, 2])
            fam = "P" if cell in ("interval", "triangle", "tetrahedron") else "Q"
            m, V = space(cell, fam, deg)
            ncoef = rng.randrange(1, 4)
            coefs = [Coefficient(V) for _ in range(ncoef)]
            arity = rng.choice([0, 1, 1, 2, 2])
            s = _rand_scalar(rng, m, V, coefs, rng.randrange(1, 3))
            u, v = TrialFunction(V), TestFunction(V)
            meas = rng.choice(["dx", "dx", "ds", "dS"]) if cell != "interval" else rng.choice(["dx", "ds"])
            dm = {"dx": dx, "ds": ds, "dS": dS}[meas]
            md = {}
            if rng.random() < 0.4:
                md["degree"] = rng.randrange(0, 5)
            if md:
                dm = dm(metadata={"quadrature_degree": md["degree"]})
            R = (lambda e: e("+")) if meas == "dS" else (lambda e: e)
            if arity == 0:
                integrand = R(s)
            elif arity == 1:
                integrand = R(s) * (R(v) if rng.random() < 0.6 else R(grad(v)[0]))
            else:
                if rng.random() < 0.5:
                    integrand = R(s) * R(u) * R(v)
                else:
                    integrand = R(s) * inner(R(grad(u)), R(grad(v)))
            form = integrand * dm
            if rng.random() < 0.3 and arity == 2:
                form = form + u * v * dx
            return [form]
        out.append(Entry(f"gen_{seed}_{i}", b, tags=("generated",)))
    return out
