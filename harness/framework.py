"""Common skeleton of every property check (DESIGN.md §3 "Check skeleton", §8, §9).

A property module `harness/props/cXX.py` defines `run(chk)`; it
 * declares its Lean obligations  (chk.lean(...))      -> theorems rebuilt + axiom-audited on this run
 * reports model/implementation disagreements          (chk.disagree(...))
 * reports violations found on the real implementation (chk.violation(...)), matched against
   known_findings.jsonl by a canonical key
 * counts explored cases                                (chk.case(...))
and `chk.finish()` writes evidence/<id>.json, prints VIOLATION / KNOWN-FINDING lines and returns
the exit code (0 ok, 1 violation; infrastructure errors are exit 2 and are raised as exceptions).
"""
import json
import os
import sys
import time
import traceback
from pathlib import Path

from . import lean as leanmod

VERIF = Path(__file__).resolve().parent.parent
REPO = Path(os.environ.get("FFCX_REPO", "/repo"))

TRUSTED_BASE_COMMON = [
    "Lean 4.33 kernel; axioms limited to propext, Classical.choice, Quot.sound (audited with #print axioms on this run)",
    "harness/export.py (LNodes/IR -> s-expression), the s-expression reader and the native driver (compiled Lean evaluator, not kernel-checked)",
    "the correspondence/differential comparison code in harness/",
    "Python/NumPy semantics of the modelled functions are tied to the Lean model only by the correspondence runs of this check",
]


def load_findings():
    p = VERIF / "known_findings.jsonl"
    out = []
    if p.exists():
        for line in p.read_text().splitlines():
            line = line.strip()
            if line:
                out.append(json.loads(line))
    return out


class Check:
    def __init__(self, prop, tier="quick", seed=0):
        self.prop = prop
        self.tier = tier
        self.seed = int(seed)
        self.t0 = time.time()
        self.obligations = []  # (module, theorem, ok, note)
        self.broken = []  # descriptions of broken obligations / correspondences
        self.violations = []  # dicts(key, what, payload)
        self.known_hits = []
        self.evaluations = 0
        self.nontrivial = set()
        self.samples = []
        self.hist = {}
        self.notes = {}
        self.assumptions = []
        self.trusted = list(TRUSTED_BASE_COMMON)
        self.rule = ""
        self.exhaustive = None
        self.programs = 0
        self.disagreements_checked = 0
        self.checker_cmds = []
        self.known = [f for f in load_findings() if f.get("property") == prop and f.get("status") == "known"]

    # ---------------------------------------------------------------- Lean side
    def lean(self, module, theorems, extra_files=()):
        """Build `module` (a FfcxProofs.* module) and audit `theorems` in it.

        Every theorem is one obligation. A failed build or a foreign axiom breaks the
        obligations; the check goes on to the search and reports at finish().
        """
        self.checker_cmds.append(f"cd lean && lake build {module} && lake env lean (#print axioms …)")
        ok, log, secs = leanmod.build([module])
        self.notes.setdefault("lean_build_s", {})[module] = round(secs, 2)
        if not ok:
            err = "\n".join(l for l in log.splitlines() if "error" in l.lower())[:3000]
            for t in theorems:
                self.obligations.append((module, t, False, "build failed"))
            self.broken.append({"kind": "lean-build", "module": module, "theorems": list(theorems), "log": err or log[-3000:]})
            return False
        # forbidden constructs in the module's source and its local imports
        files = [leanmod.LEAN / (module.replace(".", "/") + ".lean"), *extra_files]
        hits = leanmod.grep_forbidden([f for f in files if Path(f).exists()])
        if hits:
            self.broken.append({"kind": "forbidden-construct", "module": module, "hits": hits[:20]})
        res, missing, out = leanmod.print_axioms(module, theorems)
        allok = not hits
        for t in theorems:
            ax = None
            for k, v in res.items():
                if k == t or k.endswith("." + t) or t.endswith("." + k):
                    ax = v
            if ax is None:
                self.obligations.append((module, t, False, "theorem not found"))
                self.broken.append({"kind": "lean-missing-theorem", "module": module, "theorem": t, "log": out[-1500:]})
                allok = False
            elif not ax <= leanmod.ALLOWED_AXIOMS:
                self.obligations.append((module, t, False, f"axioms {sorted(ax)}"))
                self.broken.append({"kind": "lean-axioms", "module": module, "theorem": t, "axioms": sorted(ax)})
                allok = False
            else:
                self.obligations.append((module, t, not hits, "axioms " + (",".join(sorted(ax)) or "none")))
        return allok

    def leanchecker(self, modules):
        """Thorough tier: independent re-check of compiled proof modules."""
        rc, out = leanmod.lake("env", "leanchecker", *modules, timeout=3000)
        self.notes["leanchecker"] = {"modules": list(modules), "rc": rc, "tail": out[-400:]}
        if rc != 0:
            self.broken.append({"kind": "leanchecker", "modules": list(modules), "log": out[-2000:]})
        return rc == 0

    # ------------------------------------------------------------ exploration
    def case(self, kind="case", key=None, sample=None, n=1):
        """Count explored cases. `key`: canonical id of a non-trivial case (None = trivial)."""
        self.evaluations += n
        self.hist[kind] = self.hist.get(kind, 0) + n
        if key is not None:
            self.nontrivial.add(f"{kind}:{key}")
        if sample is not None and len(self.samples) < 12:
            self.samples.append(sample)

    def disagree(self, what, detail):
        """Model and implementation disagree (correspondence broken)."""
        self.disagreements_checked += 1
        if len(self.broken) < 50:
            self.broken.append({"kind": "correspondence", "what": what, "detail": detail})

    def violation(self, key, what, payload=None):
        """A failing input on the real implementation, judged by the property's own oracle."""
        for f in self.known:
            if f.get("key") == key:
                if key not in [k for k, _ in self.known_hits]:
                    self.known_hits.append((key, f.get("what", what)))
                return False
        if len(self.violations) < 50:
            self.violations.append({"key": key, "what": what, "payload": payload})
        return True

    # ----------------------------------------------------------------- output
    def _coverage_floors(self):
        """Committed per-check minima of explored cases per kind (coverage_floors.json, written by
        `python -m harness.mkfloors` from a clean run at half the observed counts). A run that silently lost
        most of its coverage (every form crashes, a patched name disappeared, workers time out) no longer
        shows that the property held on what it claims to explore: broken, no failing input."""
        try:
            floors = json.loads((VERIF / "coverage_floors.json").read_text()).get(self.prop, {}).get(self.tier, {})
        except Exception:
            return
        low = {k: (self.hist.get(k, 0), m) for k, m in floors.items() if self.hist.get(k, 0) < m}
        if low:
            self.broken.append({"kind": "coverage-floor",
                                "what": "explored cases fell below the committed floor: " +
                                        ", ".join(f"{k} {c} < {m}" for k, (c, m) in sorted(low.items())),
                                "detail": {k: list(v) for k, v in low.items()}})

    def finish(self):
        self._coverage_floors()
        wall = time.time() - self.t0
        nobl = len(self.obligations)
        ndis = sum(1 for o in self.obligations if o[2])
        replay = None
        rc = 0
        lines = []
        for key, what in self.known_hits:
            lines.append(f"KNOWN-FINDING: property={self.prop} {key}: {what}")
        if self.violations or self.broken:
            rc = 1
            rdir = VERIF / "replays"
            rdir.mkdir(exist_ok=True)
            replay = rdir / f"{self.prop}_{self.tier}_{self.seed}_{int(time.time())}.json"
            replay.write_text(json.dumps({
                "property": self.prop, "tier": self.tier, "seed": self.seed,
                "violations": self.violations, "broken": self.broken,
                "replay_cmd": f"./check {self.prop} --replay {replay}",
            }, indent=1, default=str))
            if self.violations:
                lines.append(f"VIOLATION property={self.prop} replay={replay}")
            else:
                lines.append(f"VIOLATION property={self.prop} replay={replay} no-failing-input-found")
        cov = {
            "obligations": nobl,
            "discharged": ndis,
            "checker_cmd": " ; ".join(dict.fromkeys(self.checker_cmds)) or "n/a",
            "trusted_base": self.trusted,
            "theorems": [f"{m}.{t}: {'ok' if ok else 'BROKEN'} ({note})" for m, t, ok, note in self.obligations],
            "evaluations": self.evaluations,
            "distinct_nontrivial": len(self.nontrivial),
            "rule": self.rule,
            "samples": self.samples or ["(none)"],
            "programs": self.programs,
            "disagreements_checked": self.disagreements_checked,
            "histogram": self.hist,
            "known_findings_hit": [k for k, _ in self.known_hits],
            "broken": [b.get("kind") + ":" + str(b.get("what", b.get("module", ""))) for b in self.broken],
        }
        if self.exhaustive is not None:
            cov["exhaustive"] = bool(self.exhaustive)
        cov.update(self.notes)
        ev = {
            "property_id": self.prop,
            "tier": self.tier,
            "seed": self.seed,
            "level": "proof",
            "coverage": cov,
            "assumptions": self.assumptions,
            "wall_s": round(wall, 2),
            "violations": len(self.violations) + (1 if (self.broken and not self.violations) else 0),
        }
        edir = VERIF / "evidence"
        edir.mkdir(exist_ok=True)
        tmp = edir / f".{self.prop}.json.tmp{os.getpid()}"
        tmp.write_text(json.dumps(ev, indent=1, default=str))
        os.replace(tmp, edir / f"{self.prop}.json")
        for l in lines:
            print(l)
        print(f"[{self.prop}] tier={self.tier} seed={self.seed} obligations={ndis}/{nobl} "
              f"evaluations={self.evaluations} nontrivial={len(self.nontrivial)} "
              f"violations={len(self.violations)} broken={len(self.broken)} known={len(self.known_hits)} wall={wall:.1f}s")
        sys.stdout.flush()
        return rc


def main(argv=None):
    import argparse
    import importlib
    import warnings

    warnings.filterwarnings("ignore")
    if hasattr(sys, "set_int_max_str_digits"):
        sys.set_int_max_str_digits(0)  # exact rationals of long products exceed Python's default conversion limit

    ap = argparse.ArgumentParser()
    ap.add_argument("prop")
    ap.add_argument("--tier", default=os.environ.get("VERIF_TIER", "quick"))
    ap.add_argument("--replay", default=None)
    a = ap.parse_args(argv)
    seed = int(os.environ.get("VERIF_SEED", "0") or 0)
    tier = a.tier if a.tier in ("quick", "thorough") else "quick"
    chk = Check(a.prop, tier, seed)
    try:
        mod = importlib.import_module(f"harness.props.{a.prop.lower()}")
        if a.replay:
            payload = json.loads(Path(a.replay).read_text())
            if hasattr(mod, "replay"):
                mod.replay(chk, payload)
            else:
                chk.seed = int(payload.get("seed", seed))
                chk.tier = payload.get("tier", tier)
                mod.run(chk)
        else:
            mod.run(chk)
        rc = chk.finish()
    except Exception as ex:
        traceback.print_exc()
        infra = isinstance(ex, (OSError, MemoryError, TimeoutError)) or "build failed" in str(ex) or "lake" in str(ex).lower()
        if infra:
            print(f"[{a.prop}] INFRASTRUCTURE ERROR (exit 2)")
            return 2
        # the harness could not even be applied to this tree (a name it patches / reads disappeared, an exporter met a
        # node it does not know …): the tie between model and code is broken -> VIOLATION … no-failing-input-found
        chk.broken.append({"kind": "harness-exception", "what": f"{type(ex).__name__}: {str(ex)[:300]}",
                           "trace": traceback.format_exc()[-2500:]})
        try:
            return chk.finish()
        except Exception:
            traceback.print_exc()
            print(f"[{a.prop}] INFRASTRUCTURE ERROR (exit 2)")
            return 2
    return rc
