"""Quadrature-selection cluster (C11): ties the Lean transcription of the code that decides WHICH rule an integral
gets (lean/FfcxModel/Quadrature/Select.lean) to the real code.

    ffcx/analysis.py::_analyze_form                               -> `analyze`, `analyzeAll`
    ffcx/ir/representation.py::_group_integrands_by_quadrature_rule -> `selectStep`, `selectSeq`, `groupRules`, `summed`
    ffcx/ir/representationutils.py::create_quadrature_points_and_weights, element_interface.create_quadrature
                                                                  -> `createRules`, `createQuadrature`
    basix string_to_type / make_quadrature acceptance / cell tables, ufl facet_types / ridge_types -> data tables

Public entry points

    QUADSEL_MODULE, QUADSEL_THEOREMS, QUADSEL_FILES   Lean obligations (chk.lean(QUADSEL_MODULE, QUADSEL_THEOREMS, extra_files=QUADSEL_FILES))
    check_tables(chk, d)                              the model's Basix/UFL tables vs the installed libraries (complete)
    check_selection(chk, d, seed, n)                  seeded generator of real UFL forms through the REAL
                                                      analyze_ufl_objects + compute_ir vs the model; `d` is an open
                                                      `lean.Driver("driver_quadsel")`; ends with check_regressions
    check_regressions(chk)                            the forms of the repaired defects (c4a6950, 605b08f, 556c39a) compiled and
                                                      compared numerically with the oracle on every local entity
    python -m harness.quadsel_checks                  stand-alone runner (never writes evidence files)

What is compared for every generated form (see `compare`):

  input    UFL's own `compute_form_data` (same flags as FFCx) is snapshot BEFORE FFCx touches the metadata: per
           integral_data (type, cell, argument polysets) and per integral (quadrature_degree / quadrature_rule if the
           user gave them, estimated degree(s), the elements with has_custom_quadrature / arrays / discontinuous /
           tensor-product factorisation).  That snapshot is the model's input.
  stage 1  the metadata `_analyze_form` attaches (degree, rule | custom points/weights) or the exception class
           vs `analyzeAll` / `analyzeForm`.
  stage 2  the dictionary `_group_integrands_by_quadrature_rule` returns (recorded by a wrapper; the original runs
           unchanged): order of cell types, order of rules, member integrands (by identity), `has_tensor_factors`,
           or the exception class   vs `selectGroup` / `summed`.
           The ARRAYS of every real rule are compared with an INDEPENDENT `basix.make_quadrature` call for the
           (cell type, degree, scheme, polyset) the MODEL names (tensor rules: itertools.product of the interval rule;
           vertex scheme / vertex rule: the model's own closed form `ruleData`, exact; custom: the element's arrays).
           The model's grouping key is the identity of those independently computed arrays.
  IR       when `compute_ir` succeeds, the keys of `IntegralIR.expression.integrand` (order, arrays) and the tag
           Constants found in each factorisation graph = the members the model puts in that group.

Differences are `chk.disagree`.  Independently of the model, `oracle_claims` states what the PROPERTY asks of each
integral (its own degree / scheme / quadrature element, on the reference cell of its own integration entity) and
`chk.violation` reports a real selection that contradicts it, with the replayable spec; a follow-up run of the
integral ALONE tells whether the failure depends on the other integrals of the subdomain.
"""
import itertools
import json
import random
import sys
import warnings
from fractions import Fraction
from pathlib import Path

import basix
import basix.ufl
import numpy as np
import ufl

from . import cjit, lean, pipeline, sexp

LEAN = Path(__file__).resolve().parent.parent / "lean"
QUADSEL_MODULE = "FfcxProofs.C11Select"
QUADSEL_FILES = [LEAN / "FfcxModel/Quadrature/Select.lean", LEAN / "FfcxModel/Driver/Quadsel.lean", LEAN / "DriverQuadsel.lean",
                 LEAN / "FfcxProofs/Lemmas/QuadSelBase.lean", LEAN / "FfcxProofs/Lemmas/QuadSelGroup.lean"]
QUADSEL_THEOREMS = [
    "Ffcx.QuadSel.explicit_degree_honoured", "Ffcx.QuadSel.default_degree_is_estimate", "Ffcx.QuadSel.scheme_honoured",
    "Ffcx.QuadSel.custom_only_from_own_elements", "Ffcx.QuadSel.custom_only_from_own_elements_analysis", "Ffcx.QuadSel.custom_overrides",
    "Ffcx.QuadSel.vertex_scheme_entity", "Ffcx.QuadSel.vertex_scheme_entity_table", "Ffcx.QuadSel.vertex_integral_point_rule",
    "Ffcx.QuadSel.regression_shared_cell_type", "Ffcx.QuadSel.regression_vertex_scheme_on_vertex_integral",
    "Ffcx.QuadSel.rule_lives_on_entity", "Ffcx.QuadSel.rule_lives_on_entity_prism",
    "Ffcx.QuadSel.grouping_partition", "Ffcx.QuadSel.grouping_same_iff", "Ffcx.QuadSel.grouping_perm", "Ffcx.QuadSel.summed_sum",
    "Ffcx.QuadSel.summed_tags", "Ffcx.QuadSel.summed_rule_tensor_iff_all", "Ffcx.QuadSel.tensor_flag_order_independent",
    "Ffcx.QuadSel.regression_merged_tensor_flag",
    "Ffcx.QuadSel.selection_independent_of_order", "Ffcx.QuadSel.selection_perm", "Ffcx.QuadSel.selection_perm_error",
    "Ffcx.QuadSel.rejects_vertex_discontinuous", "Ffcx.QuadSel.rejections",
]

CELLS = ["interval", "triangle", "quadrilateral", "tetrahedron", "hexahedron", "prism"]
TDIM = {"point": 0, "interval": 1, "triangle": 2, "quadrilateral": 2, "tetrahedron": 3, "hexahedron": 3, "prism": 3, "pyramid": 3}
MEASURES = {"dx": "cell", "ds": "exterior_facet", "dS": "interior_facet", "dP": "vertex", "dr": "ridge"}
_CFD = dict(do_apply_function_pullbacks=True, do_apply_integral_scaling=True, do_apply_geometry_lowering=True,
            preserve_geometry_types=(ufl.classes.Jacobian,), do_apply_restrictions=True,
            do_append_everywhere_integrals=False, complex_mode=False)


# ------------------------------------------------------------------------------------------------ forms from specs
def _spaces(spec):
    """mesh, argument space, coefficient space, DG space of a spec."""
    cell = spec["cell"]
    gd = TDIM[cell]
    fam, deg = spec.get("space", ["P", 1])
    if spec.get("tp"):
        ct = getattr(basix.CellType, cell)

        def tp(d):
            return basix.ufl.wrap_element(basix.create_tp_element(basix.ElementFamily.P, ct, d, basix.LagrangeVariant.gll_warped))
        m = ufl.Mesh(basix.ufl.blocked_element(tp(1), shape=(gd,)))
        ael = tp(deg)
        cel = tp(1)
    else:
        m = ufl.Mesh(basix.ufl.element("P", cell, 1, shape=(gd,)))
        ael = basix.ufl.element(fam, cell, deg)
        cel = basix.ufl.element("P", cell, 1)
    V = ufl.FunctionSpace(m, ael)
    W = ufl.FunctionSpace(m, cel)
    D = ufl.FunctionSpace(m, basix.ufl.element("DP", cell, 1))
    S = ufl.FunctionSpace(m, basix.ufl.element("P", cell, 2))  # never a basix TP element
    return m, V, W, D, S


def _qelement(cell, q):
    if "points" in q:
        return basix.ufl.quadrature_element(cell, points=np.array(q["points"], dtype=np.float64),
                                            weights=np.array(q["weights"], dtype=np.float64))
    return basix.ufl.quadrature_element(cell, degree=q["degree"], scheme=q.get("scheme", "default"))


def build_form(spec, only=None):
    """UFL form of a spec; `only` = set of integral tags to keep.  Integral t is
    c_t * f**power [* quadrature-element coefficients] [* DG coefficient] [* P2 coefficient] * arguments,
    c_t a scalar Constant created in tag order (so `Constant.count()` order = tag order)."""
    m, V, W, D, S = _spaces(spec)
    rank = spec.get("rank", 1)
    v = ufl.TestFunction(V) if rank >= 1 else None
    u = ufl.TrialFunction(V) if rank >= 2 else None
    f = ufl.Coefficient(W)
    consts = {}
    form = None
    tag = 0
    qspaces = {}
    for g in spec["groups"]:
        meas = getattr(ufl, g["measure"])
        sid = g.get("subdomain")
        for it in g["integrals"]:
            c = ufl.Constant(m)
            consts[tag] = c
            plus = (lambda e: e("+")) if g["measure"] == "dS" else (lambda e: e)
            minus = (lambda e: e("-")) if g["measure"] == "dS" else (lambda e: e)
            e = c * plus(f) ** it.get("power", 1)
            for q in it.get("qe", []):
                k = json.dumps(q, sort_keys=True)
                if k not in qspaces:
                    qspaces[k] = ufl.Coefficient(ufl.FunctionSpace(m, _qelement(spec["cell"], q)))
                e = e * plus(qspaces[k])
            if it.get("dg"):
                e = e * plus(ufl.Coefficient(D))
            if it.get("nontp"):
                e = e * plus(ufl.Coefficient(S))
            if v is not None:
                e = e * minus(v)
            if u is not None:
                e = e * plus(u)
            md = dict(it.get("md", {}))
            kw = {}
            if "degree" in md:
                kw["degree"] = md["degree"]
            if "scheme" in md:
                kw["scheme"] = md["scheme"]
            if sid is not None:
                kw["subdomain_id"] = sid
            term = e * meas(domain=m, **kw)
            if only is None or tag in only:
                form = term if form is None else form + term
            tag += 1
    return form, consts


# ------------------------------------------------------------------------------------------- the real pipeline
class Arrays:
    """registry of arrays: equal ids <=> equal shape and np.allclose (ids start at 1)."""

    def __init__(self):
        self.items = []

    def id(self, a):
        a = np.asarray(a)
        for k, b in enumerate(self.items):
            if a.shape == b.shape and np.allclose(a, b):
                return k + 1
        self.items.append(np.array(a, copy=True))
        return len(self.items)

    def get(self, k):
        return self.items[k - 1]


def _tags(expr, count2tag):
    return sorted({count2tag[c.count()] for c in ufl.algorithms.analysis.extract_type(expr, ufl.Constant) if c.count() in count2tag})


def _polyset(e):
    try:
        return e.polyset_type.name
    except NotImplementedError:
        return "standard"


def _ufl_types(cell, which):
    uc = ufl.Cell(cell)
    ts = uc.facet_types if which == "facet" else (uc.ridge_types if TDIM[cell] >= 2 else ())
    return ["point" if t.cellname == "vertex" else t.cellname for t in ts]


def snapshot_input(fd, count2tag):
    """the model's input, from UFL's form data alone (called on the object `ufl.algorithms.compute_form_data` returns to
    `_analyze_form`, BEFORE FFCx touches the metadata)."""
    arrays = Arrays()
    groups = []
    for idata in fd.integral_data:
        g = {"itype": idata.integral_type, "cell": idata.domain.ufl_cell().cellname, "subdomain": str(idata.subdomain_id),
             "argps": [_polyset(e) for e in fd.argument_elements], "integrals": []}
        # the order of `facet_types` of a prism is whatever UFL's `tuple(set(...))` gives in this process
        g["facets"] = _ufl_types(g["cell"], "facet")
        g["ridges"] = _ufl_types(g["cell"], "ridge")
        for pos, itg in enumerate(idata.integrals):
            md = itg.metadata()
            est = md["estimated_polynomial_degree"]
            est = [int(x) for x in (est if isinstance(est, tuple | list) else [est])]
            elems = []
            for e in ufl.algorithms.extract_elements(itg):
                d = {"hasCustom": bool(e.has_custom_quadrature), "pts": 0, "wts": 0, "n": 0, "polyset": _polyset(e),
                     "disc": bool(e.discontinuous), "tp": bool(e.has_tensor_product_factorisation)}
                if d["hasCustom"]:
                    p, w = e.custom_quadrature()
                    d.update(pts=arrays.id(p), wts=arrays.id(w), n=int(np.asarray(p).shape[0]))
                elems.append(d)
            deg = md.get("quadrature_degree")
            g["integrals"].append({
                "pos": pos, "tags": _tags(itg.integrand(), count2tag),
                "md_degree": None if deg is None else int(deg), "md_scheme": md.get("quadrature_rule"), "est": est,
                "coordTP": bool(itg.ufl_domain().ufl_coordinate_element().has_tensor_product_factorisation),
                "elems": elems})
        groups.append(g)
    return groups, arrays


def real_run(form, count2tag, options):
    """REAL analysis + IR with two recording wrappers (the originals run unchanged): `ufl.algorithms.compute_form_data`
    as `_analyze_form` calls it (input snapshot) and `_group_integrands_by_quadrature_rule` (its return value)."""
    import ffcx.analysis
    import ffcx.ir.representation as R

    out = {"analysis": None, "groups": [], "ir": None, "exc": None, "input": None}
    orig = R._group_integrands_by_quadrature_rule
    orig_cfd = ufl.algorithms.compute_form_data

    def cfd(*a, **kw):
        fd = orig_cfd(*a, **kw)
        out["input"] = snapshot_input(fd, count2tag)
        return fd

    def wrapper(integrals, argument_elements, integral_type, ufl_cell, sum_factorization):
        try:
            res = orig(integrals, argument_elements, integral_type, ufl_cell, sum_factorization)
        except Exception as e:  # noqa: BLE001
            out["groups"].append(("exc", type(e).__name__, str(e)[:200]))
            raise
        pos = {id(i.integrand()): k for k, i in enumerate(integrals)}
        rec = []
        for ct, d in res.items():
            for r, members in d.items():
                tf = None
                if r.tensor_factors is not None:
                    tf = [(np.asarray(a), np.asarray(b)) for a, b in r.tensor_factors]
                rec.append({"cell": ct.name, "pts": np.asarray(r.points), "wts": np.asarray(r.weights), "tensor": bool(r.has_tensor_factors),
                            "tf": tf, "members": [pos[id(x)] for x in members]})
        out["groups"].append(("ok", rec))
        return res

    ufl.algorithms.compute_form_data = cfd
    try:
        an = ffcx.analysis.analyze_ufl_objects([form], options["scalar_type"])
    except Exception as e:  # noqa: BLE001
        out["exc"] = ("analysis", type(e).__name__, str(e)[:200])
        return out
    finally:
        ufl.algorithms.compute_form_data = orig_cfd
    ana = []
    for idata in an.form_data[0].integral_data:
        row = []
        for itg in idata.integrals:
            md = itg.metadata()
            row.append({"scheme": md.get("quadrature_rule"), "degree": md.get("quadrature_degree"),
                        "pts": md.get("quadrature_points"), "wts": md.get("quadrature_weights"), "tags": _tags(itg.integrand(), count2tag)})
        ana.append(row)
    out["analysis"] = ana
    R._group_integrands_by_quadrature_rule = wrapper
    try:
        ir = R.compute_ir(an, {}, "qs", options, False)
    except Exception as e:  # noqa: BLE001
        in_sel = bool(out["groups"]) and out["groups"][-1][0] == "exc"
        out["exc"] = ("selection" if in_sel else "downstream", type(e).__name__, str(e)[:200])
        return out
    finally:
        R._group_integrands_by_quadrature_rule = orig
    irs = []
    for iir in ir.integrals:
        row = []
        for (ct, r), v in iir.expression.integrand.items():
            tags = set()
            for node in v["factorization"].nodes.values():
                ex = node.get("expression")
                if isinstance(ex, ufl.Constant) and ex.count() in count2tag:
                    tags.add(count2tag[ex.count()])
            row.append({"cell": ct.name, "pts": np.asarray(r.points), "wts": np.asarray(r.weights), "tensor": bool(r.has_tensor_factors),
                        "tags": sorted(tags)})
        irs.append(row)
    out["ir"] = irs
    return out


def run_spec(spec, only=None):
    """build + snapshot + real run; picklable result (UFL expressions dropped after the consistency check)."""
    warnings.filterwarnings("ignore")
    try:
        form, consts = build_form(spec, only)
    except Exception as e:  # noqa: BLE001
        return {"build_error": f"{type(e).__name__}: {str(e)[:200]}"}
    if form is None:
        return {"build_error": "empty"}
    count2tag = {c.count(): t for t, c in consts.items()}
    options = pipeline.default_options(sum_factorization=bool(spec.get("sum_factorization", False)))
    real = real_run(form, count2tag, options)
    if real["input"] is None:
        return {"build_error": f"compute_form_data: {real['exc']}"}
    groups, arrays = real.pop("input")
    # the snapshot and the analysed form data must list the same integrals in the same order
    if real["analysis"] is not None:
        ok = len(real["analysis"]) == len(groups) and all(
            len(a) == len(g["integrals"]) and all(x["tags"] == y["tags"] for x, y in zip(a, g["integrals"]))
            for a, g in zip(real["analysis"], groups))
        if not ok:
            return {"build_error": "snapshot and analysed form data differ"}
        for a in real["analysis"]:
            for x in a:
                if x["pts"] is not None:
                    x["pts"] = arrays.id(x["pts"])
                    x["wts"] = arrays.id(x["wts"])
    return {"groups": groups, "arrays": arrays.items, "real": real, "sum_factorization": bool(spec.get("sum_factorization", False))}


# ------------------------------------------------------------------------------------------------ model side
def _b(x):
    return "true" if x else "false"


def group_sexp(g):
    its = []
    for it in g["integrals"]:
        deg = "none" if it["md_degree"] is None else str(it["md_degree"])
        sch = "none" if it["md_scheme"] is None else f"(s {sexp.q(str(it['md_scheme']))})"
        els = " ".join(f"({_b(e['hasCustom'])} {e['pts']} {e['wts']} {e['n']} {e['polyset']} {_b(e['disc'])} {_b(e['tp'])})" for e in it["elems"])
        its.append(f"(itg {it['pos']} {deg} {sch} (est {' '.join(str(x) for x in it['est'])}) {_b(it['coordTP'])} (elems {els}))")
    return (f"(group {g['itype']} {g['cell']} (argps {' '.join(g['argps'])}) (facets {' '.join(g['facets'])}) "
            f"(ridges {' '.join(g['ridges'])}) (integrals {' '.join(its)}))")


def ask_run(d, groups, sf, keys=()):
    ks = " ".join(f"({sexp.dumps(r)} {k})" for r, k in keys)
    req = f"(run (opts {_b(sf)}) (keys {ks}) (groups {' '.join(group_sexp(g) for g in groups)}))"
    r = d.ask(req)
    if r and r[0] == "error":
        raise RuntimeError(f"driver_quadsel: {r} on {req[:300]}")
    return {"analysis": r[0][1:], "groups": r[1][1:], "form": r[2][1]}


_QT = {"default": "default", "gauss_jacobi": "gauss_jacobi", "gll": "gll", "xiao_gimbutas": "xiao_gimbutas"}


class Expect:
    """arrays of the rules the MODEL names, from calls that do not go through FFCx."""

    def __init__(self, d, arrays):
        self.d = d
        self.arrays = arrays
        self.cache = {}

    def of(self, rule):
        k = sexp.dumps(rule)
        if k not in self.cache:
            self.cache[k] = self._make(rule)
        return self.cache[k]

    def _make(self, rule):
        kind = rule[0]
        if kind == "basix":
            _, cell, qt, deg, ps = rule
            p, w = basix.make_quadrature(getattr(basix.CellType, cell), int(deg), rule=getattr(basix.QuadratureType, _QT[qt]),
                                         polyset_type=getattr(basix.PolysetType, ps))
            return np.asarray(p), np.asarray(w), None
        if kind == "tensor":
            _, n, qt, deg, ps = rule
            p, w = basix.make_quadrature(basix.CellType.interval, int(deg), rule=getattr(basix.QuadratureType, _QT[qt]),
                                         polyset_type=getattr(basix.PolysetType, ps))
            p, w = np.asarray(p), np.asarray(w)
            n = int(n)
            idx = list(itertools.product(range(len(w)), repeat=n))
            pts = np.array([[p[i, 0] for i in ix] for ix in idx])
            wts = np.array([float(np.prod([w[i] for i in ix])) for ix in idx])
            return pts, wts, [(p, w)] * n
        if kind in ("vertex", "point"):
            r = self.d.ask(f"(ruledata {sexp.dumps(rule)})")
            assert r[0] == "some", r
            rows = r[1:]
            ncol = len(rows[0][0]) if rows else 0
            pts = np.array([[float(Fraction(x)) for x in row[0]] for row in rows], dtype=np.float64).reshape(len(rows), ncol)
            wts = np.array([float(Fraction(row[1])) for row in rows], dtype=np.float64)
            return pts, wts, None
        if kind == "custom":
            return self.arrays[int(rule[1]) - 1], self.arrays[int(rule[2]) - 1], None
        raise ValueError(rule)


def _same_rule(pts, wts, epts, ewts):
    pts, epts = np.asarray(pts), np.asarray(epts)
    if pts.shape != epts.shape or np.asarray(wts).shape != np.asarray(ewts).shape:
        return False
    return bool(np.array_equal(pts, epts)) and bool(np.allclose(wts, ewts, rtol=1e-15, atol=0.0))


def _err(x):
    """(err name pyclass) -> (name, pyclass) or None"""
    if isinstance(x, list) and x and x[0] == "err":
        return x[1], x[2]
    return None


def compare(chk, d, spec, res, stats):
    """model vs real for one generated form.  Returns the model's reply (with keys) for the oracle."""
    groups, real, sf = res["groups"], res["real"], res["sum_factorization"]
    rep = lambda **kw: {"spec": spec, **kw}  # noqa: E731
    m0 = ask_run(d, groups, sf)
    # ---- stage 1
    ferr = _err(m0["form"])
    aerrs = [_err(a) for a in m0["analysis"]]
    first_aerr = next((e for e in aerrs if e), None)
    if real["exc"] and real["exc"][0] == "analysis":
        stats["real_analysis_exc"] = stats.get("real_analysis_exc", 0) + 1
        if first_aerr is None or first_aerr[1] != real["exc"][1]:
            chk.disagree("quadsel: _analyze_form raises, the model does not (or another exception class)",
                         rep(real=real["exc"], model=m0["analysis"]))
        else:
            stats.setdefault("errors", {}).setdefault(first_aerr[0], 0)
            stats["errors"][first_aerr[0]] += 1
        return None
    if first_aerr is not None:
        chk.disagree("quadsel: the model's analysis raises, _analyze_form does not", rep(model=first_aerr))
        return None
    for gi, (a_model, a_real) in enumerate(zip(m0["analysis"], real["analysis"])):
        for pos, (am, ar) in enumerate(zip(a_model[1:], a_real)):
            if am[0] == "std":
                okk = ar["pts"] is None and int(ar["degree"]) == int(am[1]) and ar["scheme"] == am[2][1]
            else:
                okk = ar["scheme"] == "custom" and ar["pts"] == int(am[1]) and ar["wts"] == int(am[2])
            stats.setdefault("analysed", {}).setdefault(am[0], 0)
            stats["analysed"][am[0]] += 1
            if not okk:
                chk.disagree("quadsel: metadata attached by _analyze_form differs from the model",
                             rep(group=gi, pos=pos, model=am, real={k: (v if k not in ("pts", "wts") else v) for k, v in ar.items()}))
                return None
    # ---- stage 2: keys from independently computed arrays of every rule the model names
    ex = Expect(d, res["arrays"])
    keyreg = []
    keys = {}
    for g in m0["groups"]:
        if g[0] != "ok":
            continue
        for o in g[1][1:]:
            for cell, rule in o[1:]:
                k = sexp.dumps(rule)
                if k in keys:
                    continue
                p, w, _ = ex.of(rule)
                for n, (q, v) in enumerate(keyreg):
                    if p.shape == q.shape and p.tobytes() == q.tobytes() and w.shape == v.shape and np.allclose(w, v):
                        keys[k] = n + 1
                        break
                else:
                    keyreg.append((p, w))
                    keys[k] = len(keyreg)
    keylist = [(sexp.loads(k), v) for k, v in keys.items()]
    m = ask_run(d, groups, sf, keylist)
    ferr = _err(m["form"])
    nrec = len(real["groups"])
    for gi, g in enumerate(groups):
        if gi >= nrec:
            break
        gm = m["groups"][gi]
        rec = real["groups"][gi]
        key = f"{g['itype']}:{g['cell']}"
        if rec[0] == "exc":
            e = _err(gm)
            if e is None or e[1] != rec[1]:
                chk.disagree("quadsel: _group_integrands_by_quadrature_rule raises, the model does not (or another class)",
                             rep(group=gi, real=rec, model=gm))
            else:
                stats.setdefault("errors", {}).setdefault(e[0], 0)
                stats["errors"][e[0]] += 1
                chk.case("quadsel_group", f"{key}:err:{e[0]}")
            break
        e = _err(gm)
        if e is not None:
            chk.disagree("quadsel: the model's selection raises, the real grouping does not", rep(group=gi, model=e, real=_brief(rec[1])))
            break
        summed = gm[2][1:]
        if len(summed) != len(rec[1]):
            chk.disagree("quadsel: number of (cell type, rule) groups differs", rep(group=gi, model=summed, real=_brief(rec[1])))
            continue
        for sm, rr in zip(summed, rec[1]):
            cell, rule, tags = sm
            ep, ew, etf = ex.of(rule)
            kind = rule[0]
            stats.setdefault("rules", {}).setdefault(kind, 0)
            stats["rules"][kind] += 1
            bad = None
            if cell != rr["cell"]:
                bad = "cell type of the group"
            elif [int(t) for t in tags] != rr["members"]:
                bad = "members of the group"
            elif not _same_rule(rr["pts"], rr["wts"], ep, ew):
                bad = "points/weights differ from the independent call the model names"
            elif (kind == "tensor") != rr["tensor"]:
                bad = "has_tensor_factors"
            elif kind == "tensor" and not (len(rr["tf"]) == len(etf) and all(_same_rule(a, b, c, e_) for (a, b), (c, e_) in zip(rr["tf"], etf))):
                bad = "tensor factors"
            if bad:
                chk.disagree(f"quadsel: grouping differs: {bad}", rep(group=gi, model=sm, real=_brief([rr])))
                break
            chk.case("quadsel_rule", f"{key}:{kind}:{cell}:{len(tags) > 1}")
        chk.case("quadsel_group", f"{key}:n{len(g['integrals'])}:g{len(summed)}")
    # what the whole-form model says must match how far the real pipeline got
    if real["exc"] and real["exc"][0] == "selection":
        if ferr is None or ferr[1] != real["exc"][1]:
            chk.disagree("quadsel: compute_ir raises in the selection, runForm does not (or another class)", rep(real=real["exc"], model=m["form"]))
    elif ferr is not None and real["exc"] is None:
        # (after a DOWNSTREAM exception in group k the later groups never reach the selection: the groups that did
        # were compared one by one above)
        chk.disagree("quadsel: runForm raises, the real selection does not", rep(model=ferr, real=real["exc"]))
    # ---- final IR
    if real["ir"] is not None:
        for gi, (g, rows) in enumerate(zip(groups, real["ir"])):
            rec = real["groups"][gi][1]
            want = [(r["cell"], sorted({t for p in r["members"] for t in g["integrals"][p]["tags"]})) for r in rec]
            got = [(r["cell"], r["tags"]) for r in rows]
            same = want == got and all(_same_rule(a["pts"], a["wts"], b["pts"], b["wts"]) and a["tensor"] == b["tensor"] for a, b in zip(rows, rec))
            if not same:
                chk.disagree("quadsel: IntegralIR.expression.integrand differs from the recorded grouping", rep(group=gi, ir=got, grouping=want))
        stats["ir_ok"] = stats.get("ir_ok", 0) + 1
    elif real["exc"] and real["exc"][0] == "downstream":
        stats.setdefault("downstream_exc", {}).setdefault(real["exc"][1], 0)
        stats["downstream_exc"][real["exc"][1]] += 1
    return m


def _brief(rec):
    return [{"cell": r["cell"], "npts": int(np.asarray(r["pts"]).shape[0]), "w0": [float(x) for x in np.asarray(r["wts"])[:2]],
             "tensor": r["tensor"], "members": r.get("members", r.get("tags"))} for r in rec]


# ----------------------------------------------------------------------------------------- the property's own oracle
def _entity_types(itype, cell):
    ct = getattr(basix.CellType, cell)
    td = TDIM[cell]
    dim = {"cell": td, "exterior_facet": td - 1, "interior_facet": td - 1, "ridge": td - 2, "vertex": 0}[itype]
    if dim < 0:
        return None, dim
    n = len(basix.topology(ct)[dim])
    types = []
    for i in range(n):
        t = basix.cell.sub_entity_type(ct, dim, i).name
        if t not in types:
            types.append(t)
    return types, dim


def oracle_claims(g, it, sf):
    """What the property asks of ONE integral, looking at nothing but that integral and its integration entity.
    Returns None (no claim: the request may be rejected or has no agreed meaning) or
    (kind, data, may_reject, tensor_ok): the rules that must be attached; `may_reject`: raising instead is acceptable;
    `tensor_ok`: sum factorisation applies to THIS integral (only then may its rule carry tensor factors)."""
    types, dim = _entity_types(g["itype"], g["cell"])
    if types is None:
        return None
    customs = [e for e in it["elems"] if e["hasCustom"]]
    if customs:
        if g["itype"] != "cell" or len({(e["pts"], e["wts"]) for e in customs}) != 1:
            return None
        return ("custom", (customs[0]["pts"], customs[0]["wts"]), False, False)
    scheme = it["md_scheme"] if it["md_scheme"] is not None else "default"
    if dim == 0:
        # an integral over a vertex is a point evaluation whatever the metadata says; the `vertex` scheme of a
        # vertex is degenerate (Basix: volume 0, no geometry row), rejecting it is fine, integrating something else is not
        try:
            basix.quadrature.string_to_type(scheme)
            named = True
        except Exception:  # noqa: BLE001
            named = False
        return ("arrays", [("point", np.ones((1, 0)), np.ones(1))], scheme == "vertex" or not named, False)
    if scheme == "vertex":
        if len(types) != 1:
            return None
        ct = getattr(basix.CellType, types[0])
        geo = np.asarray(basix.geometry(ct), dtype=np.float64)
        return ("arrays", [(types[0], geo, np.full(geo.shape[0], basix.cell.volume(ct) / geo.shape[0]))], False, False)
    deg = it["md_degree"] if (it["md_degree"] is not None and it["md_degree"] >= 0) else max(it["est"])
    try:
        qt = basix.quadrature.string_to_type(scheme)
    except Exception:  # noqa: BLE001
        return None
    ps = basix.PolysetType.standard
    for p in g["argps"]:
        if p == "macroedge":
            ps = basix.PolysetType.macroedge
    out = []
    tensor = (sf and g["itype"] == "cell" and g["cell"] in ("quadrilateral", "hexahedron") and it["coordTP"]
              and all(e["tp"] for e in it["elems"]))
    for t in types:
        try:
            if tensor:
                p, w = basix.make_quadrature(basix.CellType.interval, deg, rule=qt, polyset_type=ps)
                n = TDIM[t]
                idx = list(itertools.product(range(len(w)), repeat=n))
                out.append((t, np.array([[p[i, 0] for i in ix] for ix in idx]), np.array([float(np.prod([w[i] for i in ix])) for ix in idx])))
            else:
                p, w = basix.make_quadrature(getattr(basix.CellType, t), deg, rule=qt, polyset_type=ps)
                out.append((t, np.asarray(p), np.asarray(w)))
        except Exception:  # noqa: BLE001
            return None
    return ("arrays", out, False, bool(tensor))


def _attached(rec, pos):
    return [(r["cell"], r["pts"], r["wts"], r["tensor"]) for r in rec if pos in r["members"]]


def _asked(it):
    if any(e["hasCustom"] for e in it["elems"]):
        return "quadrature-element"
    if it["md_scheme"] == "vertex":
        return "vertex-scheme"
    if it["md_scheme"] not in (None, "default"):
        return "scheme"
    if it["md_degree"] is not None and it["md_degree"] >= 0:
        return "explicit-degree"
    return "default-degree"


def _judge(g, it, claim, rec, arrays):
    """None if the attached rules are what the claim says, else a short reason."""
    att = sorted(_attached(rec, it["pos"]), key=lambda x: x[0])
    if claim[0] == "custom":
        want = [(g["cell"], arrays[claim[1][0] - 1], arrays[claim[1][1] - 1])]
    else:
        want = sorted(claim[1], key=lambda x: x[0])
    if len(att) != len(want):
        return f"{len(att)} rules attached, {len(want)} expected"
    for (c, p, w, tf), (ec, ep, ew) in zip(att, want):
        if c != ec:
            return f"rule filed under reference cell '{c}', the integration entity is '{ec}'"
        if np.asarray(p).shape != np.asarray(ep).shape or not np.allclose(p, ep, rtol=1e-14, atol=1e-15):
            return f"points differ ({np.asarray(p).shape[0]} points, expected {np.asarray(ep).shape[0]})"
        if not np.allclose(w, ew, rtol=1e-14, atol=1e-15):
            return f"weights differ ({[float(x) for x in np.asarray(w)[:3]]} vs {[float(x) for x in np.asarray(ew)[:3]]})"
        if tf and not claim[3]:
            # the rule OBJECT is shared with an integral whose elements all factorise: the generator then asks every
            # table of the summed integrand for tensor factors
            return "tensor-factors: the rule carries tensor factors although an element of this integral has no tensor-product factorisation"
    return None


def _group_fine(r):
    """does a (reduced) run satisfy the oracle in its first group?  True / False"""
    if "build_error" in r:
        return True
    real = r["real"]
    if real["exc"] and real["exc"][0] == "analysis":
        return False
    if not real["groups"] or real["groups"][0][0] != "ok":
        return False
    g = r["groups"][0]
    for it in g["integrals"]:
        c = oracle_claims(g, it, r["sum_factorization"])
        if c is not None and _judge(g, it, c, real["groups"][0][1], r["arrays"]) is not None:
            return False
    return True


def oracle(chk, spec, res, stats):
    """the REAL selection against the property (no model involved)."""
    groups, real, sf = res["groups"], res["real"], res["sum_factorization"]
    if real["exc"] and real["exc"][0] == "analysis":
        claims = [oracle_claims(g, it, sf) for g in groups for it in g["integrals"]]
        dp_disc = any(g["itype"] == "vertex" and any(e["disc"] for e in it["elems"]) for g in groups for it in g["integrals"])
        if all(c is not None and not c[2] for c in claims) and not dp_disc:
            key = "c11:selection:rejected-by-analysis"
            stats.setdefault("violations", {}).setdefault(key, 0)
            stats["violations"][key] += 1
            chk.violation(key, f"every integral asks for a well-defined rule, _analyze_form raises {real['exc'][1]}", {"spec": spec, "exception": real["exc"], "group": None})
        return
    for gi, g in enumerate(groups):
        if gi >= len(real["groups"]):
            break
        rec = real["groups"][gi]
        claims = [oracle_claims(g, it, sf) for it in g["integrals"]]
        if rec[0] == "exc":
            if all(c is not None and not c[2] for c in claims):
                _violation(chk, spec, g, None, f"rejected:{rec[1]}", "every integral of the subdomain asks for a well-defined rule, the selection raises", stats, rec)
            break
        for it, c in zip(g["integrals"], claims):
            stats.setdefault("oracle", {}).setdefault(_asked(it), 0)
            stats["oracle"][_asked(it)] += 1
            if c is None:
                continue
            why = _judge(g, it, c, rec[1], res["arrays"])
            if why:
                _violation(chk, spec, g, it, "wrong-rule", why, stats, None)


_CLASSIFIED = {}


def _violation(chk, spec, g, it, outcome, why, stats, exc):
    """classify with follow-up runs of reduced forms (the integral alone / the group without one integral), then report."""
    sig = (spec["cell"], g["itype"], tuple(_asked(x) for x in g["integrals"]), None if it is None else it["pos"], outcome, bool(spec.get("sum_factorization")))
    if sig not in _CLASSIFIED:
        if it is not None:
            culprit = it
            together = _group_fine(run_spec(spec, only=set(it["tags"])))
        else:
            # a raising group: the integral whose ADDITION to the ones before it (in UFL's order, which sub-forms keep)
            # makes the selection fail; `together`: that integral is fine when compiled alone
            culprit, together = None, False
            tags = []
            for cand in g["integrals"]:
                tags += cand["tags"]
                if not _group_fine(run_spec(spec, only=set(tags))):
                    culprit = cand
                    together = len(tags) > len(cand["tags"]) and _group_fine(run_spec(spec, only=set(cand["tags"])))
                    break
            if culprit is None:
                culprit, together = g["integrals"][-1], True
        _CLASSIFIED[sig] = (culprit["pos"], together)
    pos, together = _CLASSIFIED[sig]
    culprit = g["integrals"][pos]
    asked = _asked(culprit)
    if why.startswith("tensor-factors:"):
        key = f"c11:selection:tensor-factors-from-other-integral:{g['itype']}"
        what = ("sum_factorization: an integrand with an element WITHOUT tensor-product factorisation is summed under a rule object that "
                "carries tensor factors (the rule of another integral with identical points; `tensor_factors` are not part of the "
                "QuadratureRule key) - code generation then fails `assert tabledata.tensor_factors is not None`; in the other order of "
                "the integrals the kernel is generated without sum factorisation")
    elif together:
        key = f"c11:selection:depends-on-other-integrals:{g['itype']}:{asked}"
        what = (f"a {asked} integral of a {g['itype']} subdomain gets its own rule when compiled alone but not next to the other "
                f"integrals of the subdomain ({outcome}: {why})")
    else:
        key = f"c11:selection:not-honoured:{g['itype']}:{asked}"
        what = f"{asked} request of a {g['itype']} integral is not honoured ({outcome}: {why})"
    stats.setdefault("violations", {}).setdefault(key, 0)
    stats["violations"][key] += 1
    chk.violation(key, what, {"spec": spec, "cell": spec["cell"], "group": {"itype": g["itype"], "subdomain": g["subdomain"],
                  "order": [{"tags": x["tags"], "md_degree": x["md_degree"], "md_scheme": x["md_scheme"], "est": x["est"]} for x in g["integrals"]]},
                  "integral_tags": sorted(culprit["tags"]), "outcome": outcome, "why": why, "exception": exc,
                  "replay": "PYTHONPATH=/verif /venv/bin/python -m harness.quadsel_checks --replay '<spec as JSON>'"})


# ------------------------------------------------------------------------------------------------- generator
def _gen_integral(rng, cell, measure, tpcell, weights_err):
    it = {"power": rng.randint(1, 3)}
    kinds = ["none", "degree", "degree", "negdegree", "default", "vertex", "vertexdeg", "gll", "gj", "qe", "qe_deg", "qe2same", "mixed"]
    kinds += weights_err
    k = rng.choice(kinds)
    it["kind"] = k
    if k == "degree":
        it["md"] = {"degree": rng.choice([0, 1, 2, 2, 3, 3, 4, 5, 6, 9])}
    elif k == "negdegree":
        it["md"] = {"degree": rng.choice([-1, -2, -7])}
    elif k == "default":
        it["md"] = {"scheme": "default", **({"degree": rng.randint(0, 5)} if rng.random() < 0.5 else {})}
    elif k == "vertex":
        it["md"] = {"scheme": "vertex"}
    elif k == "vertexdeg":
        it["md"] = {"scheme": "vertex", "degree": rng.choice([0, 1, 1, 2, 3])}
    elif k == "gll":
        it["md"] = {"scheme": rng.choice(["GLL", "GLL", "Gauss-Lobatto-Legendre", "gll"]), **({"degree": rng.randint(0, 6)} if rng.random() < 0.7 else {})}
    elif k == "gj":
        it["md"] = {"scheme": rng.choice(["Gauss-Jacobi", "GL", "Gauss-Legendre", "gauss_jacobi", "Xiao-Gimbutas", "xiao_gimbutas"]), "degree": rng.randint(0, 5)}
    elif k in ("qe", "qe_deg", "qe2same", "qe2diff", "qe2bcast"):
        if rng.random() < 0.2:
            n = rng.randint(1, 3)
            td = TDIM[cell]
            q = {"points": [[round(0.1 + 0.15 * i + 0.05 * j, 3) for j in range(td)] for i in range(n)], "weights": [round(0.2 + 0.1 * i, 2) for i in range(n)]}
        else:
            q = {"degree": rng.randint(0, 4), "scheme": "GLL" if (tpcell and rng.random() < 0.3) else "default"}
        it["qe"] = [q]
        if k == "qe_deg":
            it["md"] = rng.choice([{"degree": rng.randint(0, 5)}, {"scheme": "vertex"}, {"degree": 2, "scheme": "default"}])
        if k == "qe2same":
            it["qe"] = [q, dict(q)]
            it["power"] = 1
        if k == "qe2diff":
            it["qe"] = [{"degree": 2, "scheme": "default"}, {"degree": 4, "scheme": "default"}]
        if k == "qe2bcast":
            it["qe"] = [{"degree": 2, "scheme": "default"}, {"degree": 0, "scheme": "default"}]
    elif k == "mixed":
        it["md"] = {"degree": rng.randint(0, 4)}
        it["nontp"] = True
    elif k == "foo":
        it["md"] = {"scheme": rng.choice(["foo", "custom", "Vertex"])}
    elif k == "dg":
        it["dg"] = True
        if rng.random() < 0.5:
            it["md"] = {"degree": rng.randint(0, 3)}
    return it


def gen_spec(rng):
    cell = rng.choice(CELLS + ["quadrilateral", "hexahedron", "triangle"])
    tpcell = cell in ("quadrilateral", "hexahedron")
    spec = {"cell": cell, "rank": rng.choice([0, 1, 1, 1, 2])}
    if tpcell and rng.random() < 0.5:
        spec["tp"] = True
        spec["space"] = ["P", rng.randint(1, 2)]
        spec["sum_factorization"] = rng.random() < 0.8
    else:
        fams = [["P", 1], ["P", 2]]
        if cell != "prism":
            fams.append(["iso", 1])
        spec["space"] = rng.choice(fams)
        if rng.random() < (0.4 if tpcell else 0.1):
            spec["sum_factorization"] = True
    measures = ["dx", "dx", "dx", "ds", "ds", "dS", "dP"] + (["dr"] if TDIM[cell] >= 2 else [])
    ngroups = rng.choice([1, 1, 2])
    errw = rng.random()
    groups = []
    used = set()
    for _ in range(ngroups):
        meas = rng.choice(measures)
        sid = rng.choice([None, None, 1, 2])
        if (meas, sid) in used:
            continue
        used.add((meas, sid))
        # kinds that make the whole form raise are rare
        werr = []
        if errw < 0.12:
            werr = [rng.choice(["foo", "qe2diff", "qe2bcast", "dg" if meas == "dP" else "foo"])]
        n = rng.choice([1, 2, 2, 3, 3, 4])
        its = []
        for _ in range(n):
            it = _gen_integral(rng, cell, meas, tpcell, werr)
            if meas != "dx" and "qe" in it and rng.random() < 0.7:
                it.pop("qe")
                it["kind"] = "none"
            if meas == "dP" and rng.random() < 0.08:
                it["dg"] = True
            its.append(it)
        groups.append({"measure": meas, "subdomain": sid, "integrals": its})
    spec["groups"] = groups
    return spec


def specs(seed, n):
    rng = random.Random(f"quadsel:{seed}")
    return [gen_spec(rng) for _ in range(n)] + fixed_specs()


def fixed_specs():
    """hand-written forms that every run must contain: the two seeded defects of §12.4, the inputs of the repaired defects
    c4a6950 (shared `cell_type`: a vertex-scheme / quadrature-element integral after another facet integral, both orders) and
    605b08f (`dP(scheme="vertex")`), prism facets, merged TP / non-TP integrands under sum_factorization."""
    out = []
    for cell in ("triangle", "tetrahedron", "quadrilateral", "hexahedron"):
        for first, second in (({"md": {"scheme": "vertex", "degree": 1}, "power": 1}, {"md": {"degree": 3}, "power": 2}),
                              ({"md": {"degree": 2}, "power": 1}, {"md": {"scheme": "vertex", "degree": 1}, "power": 2})):
            out.append({"cell": cell, "rank": 1, "space": ["P", 1], "groups": [
                {"measure": "ds", "subdomain": None, "integrals": [first, second]},
                {"measure": "dx", "subdomain": None, "integrals": [{"md": {"scheme": "vertex"}, "power": 1}, {"md": {"degree": 2}, "power": 2}]}]})
    for cell, deg in (("interval", 3), ("triangle", 2), ("tetrahedron", 2), ("quadrilateral", 2)):
        out.append({"cell": cell, "rank": 1, "space": ["P", 1], "groups": [{"measure": "dx", "subdomain": None, "integrals": [
            {"qe": [{"degree": deg, "scheme": "default"}], "power": 1}, {"md": {"degree": 4}, "power": 3}, {"power": 2}]}]})
    for cell in ("interval", "triangle", "tetrahedron", "hexahedron", "prism"):
        out.append({"cell": cell, "rank": 1, "space": ["P", 1], "groups": [{"measure": "dP", "subdomain": None, "integrals": [
            {"md": {"scheme": "vertex"}, "power": 1}, {"md": {"degree": 2}, "power": 2}, {"md": {"scheme": "vertex", "degree": 3}, "power": 3}]}]})
    for cell in ("tetrahedron", "hexahedron", "prism"):
        out.append({"cell": cell, "rank": 1, "space": ["P", 1], "groups": [{"measure": "dr", "subdomain": None, "integrals": [
            {"md": {"degree": 1}, "power": 1}, {"md": {"scheme": "vertex"}, "power": 2}, {"md": {"degree": 3}, "power": 3}]}]})
    out.append({"cell": "prism", "rank": 1, "space": ["P", 1], "groups": [{"measure": "ds", "subdomain": None, "integrals": [
        {"md": {"degree": 2}, "power": 1}, {"md": {"degree": 4}, "power": 2}, {"power": 3}]}]})
    for cell in ("quadrilateral", "hexahedron"):
        out.append({"cell": cell, "rank": 1, "tp": True, "space": ["P", 2], "sum_factorization": True, "groups": [{"measure": "dx", "subdomain": None, "integrals": [
            {"md": {"degree": 4}, "power": 1}, {"md": {"degree": 4, "scheme": "default"}, "power": 2, "nontp": True}, {"md": {"degree": 3, "scheme": "GLL"}, "power": 1}]}]})
    return out


# ------------------------------------------------------------------------------------------------- checks
def check_tables(chk, d):
    """the model's data tables against the installed Basix / UFL (complete over the listed domain)."""
    t = d.ask("(celltable)")
    n = 0
    for row in t:
        name = row[0]
        ct = getattr(basix.CellType, name)
        f = {x[0]: x[1:] for x in row[1:]}
        sub = [[s.name for s in l] for l in basix.cell.subentity_types(ct)]
        geo = [[sexp.rat(v) for v in r] for r in np.asarray(basix.cell.geometry(ct)).tolist()] if np.asarray(basix.cell.geometry(ct)).shape[0] else []
        vol = Fraction(f["vol"][0])
        impl = {"sub": sub, "geom": geo, "vol": float(basix.cell.volume(ct)), "tdim": [str(TDIM[name])]}
        model = {"sub": f["sub"], "geom": f["geom"], "vol": float(vol), "tdim": f["tdim"]}
        if name != "point":
            uc = ufl.Cell(name)
            tr = lambda s: "point" if s == "vertex" else s  # noqa: E731
            # UFL builds these tuples from a set: the ORDER (prism, pyramid) depends on the hash seed, the model takes the
            # order as an input of every group; the table is compared as a set
            impl["facets"] = sorted(tr(x.cellname) for x in uc.facet_types)
            impl["ridges"] = sorted(tr(x.cellname) for x in uc.ridge_types) if TDIM[name] >= 2 else []
            model["facets"], model["ridges"] = sorted(f["facets"]), sorted(f["ridges"])
        n += 1
        chk.case("quadsel_table", f"cell:{name}")
        if impl != model:
            chk.disagree("quadsel: reference-cell table differs from Basix/UFL", {"cell": name, "model": model, "impl": impl})
    maxdeg = 36 if chk.tier == "thorough" else 32
    t = d.ask(f"(accepttable {maxdeg})")
    qts = {"default": basix.QuadratureType.default, "gauss_jacobi": basix.QuadratureType.gauss_jacobi, "gll": basix.QuadratureType.gll,
           "xiao_gimbutas": basix.QuadratureType.xiao_gimbutas}
    degs = list(range(0, maxdeg + 1)) if chk.tier == "thorough" else [0, 1, 2, 3, 5, 14, 15, 16, 29, 30, 31, 32]
    for cell, qt, ps, bits in t:
        ct = getattr(basix.CellType, cell)
        for deg in degs:
            if TDIM[cell] == 3 and deg > 20 and chk.tier != "thorough" and deg not in (30, 31):
                continue
            try:
                basix.make_quadrature(ct, deg, rule=qts[qt], polyset_type=getattr(basix.PolysetType, ps))
                ok = True
            except RuntimeError:
                ok = False
            n += 1
            if ok != (bits[deg] == "true"):
                chk.disagree("quadsel: basixAccepts differs from basix.make_quadrature", {"cell": cell, "type": qt, "polyset": ps, "degree": deg, "impl": ok})
        chk.case("quadsel_table", f"accept:{cell}:{qt}:{ps}", n=len(degs))
    for s in ["default", "GLL", "Gauss-Lobatto-Legendre", "Gauss-Legendre", "GL", "Gauss-Jacobi", "Xiao-Gimbutas", "gll", "gauss_jacobi",
              "xiao_gimbutas", "vertex", "custom", "foo", "Default", "", "GLL "]:
        try:
            impl = basix.quadrature.string_to_type(s).name
        except KeyError:
            impl = "none"
        model = d.ask(f"(strtype {sexp.q(s)})")
        n += 1
        if impl != model:
            chk.disagree("quadsel: stringToType differs from basix.quadrature.string_to_type", {"scheme": s, "impl": impl, "model": model})
    for a in basix.PolysetType:
        for b in basix.PolysetType:
            for ct in (basix.CellType.interval, basix.CellType.triangle, basix.CellType.quadrilateral, basix.CellType.tetrahedron, basix.CellType.hexahedron, basix.CellType.prism):
                impl = basix.polyset_superset(ct, a, b).name
                model = d.ask(f"(superset {a.name} {b.name})")
                n += 1
                if impl != model:
                    chk.disagree("quadsel: Polyset.superset differs from basix.polyset_superset", {"cell": ct.name, "a": a.name, "b": b.name, "impl": impl, "model": model})
    chk.notes["quadsel_table_entries"] = n
    return n


def regression_entries(tier="quick"):
    """the repaired defects as compiled forms (entry, options): c4a6950 (a `vertex`-scheme facet integral AFTER a default-scheme one in UFL's
    order, exterior and interior facets) and 605b08f (`dP(scheme="vertex")`)."""
    from ufl import Coefficient, TestFunction, dP, dS, ds

    from . import corpus
    out = []
    cells = ["triangle", "tetrahedron"] + (["quadrilateral", "hexahedron"] if tier != "quick" else [])
    for cell in cells:
        for kind in ("facet", "ifacet", "vertex"):
            def b(cell=cell, kind=kind):
                m, V = corpus.space(cell, "Q" if cell in ("quadrilateral", "hexahedron") else "P", 1)
                v, f = TestFunction(V), Coefficient(V)
                if kind == "facet":
                    return [f * v * ds(degree=2) + f * f * v * ds(degree=1, scheme="vertex") + f * f * v * ds(degree=3, scheme="vertex")]
                if kind == "ifacet":
                    return [f("+") * v("-") * dS(degree=2) + f("+") * f("+") * v("-") * dS(degree=1, scheme="vertex")]
                return [f * v * dP(scheme="vertex") + f * f * v * dP(degree=2)]
            out.append((kind, corpus.Entry(f"quadsel_regression_{kind}_{cell}", b, tags=("c11",)), {}))
    # 556c39a: a factorising and a non-factorising integrand with identical points, in both orders UFL can list them,
    # with and without the option
    for cell in ["quadrilateral"] + (["hexahedron"] if tier != "quick" else []):
        for swap in (False, True):
            def b(cell=cell, swap=swap):
                spec = {"cell": cell, "tp": True, "space": ["P", 2]}
                m, V, W, D, S = _spaces(spec)
                v, f, g = TestFunction(V), Coefficient(W), Coefficient(S)
                p, q = (2, 1) if swap else (1, 2)
                from ufl import dx
                return [f ** p * v * dx(degree=4) + g * f ** q * v * dx(degree=4, scheme="default")]
            for sf in (True, False):
                out.append(("tensor", corpus.Entry(f"quadsel_regression_tpmix_{cell}_{int(swap)}_sf{int(sf)}", b, tags=("c11",)),
                            {"sum_factorization": sf}))
    return out


def check_regressions(chk):
    """the forms of the repaired selection defects must COMPILE and agree with the oracle (harness/oracle.py applies every
    integral's own rule on its own integration entity) for every local entity."""
    from . import numeric
    ents = regression_entries(chk.tier)
    res = cjit.parallel_map(lambda i: numeric.compare_entry(ents[i][1], dict(ents[i][2]), seed=chk.seed * 13 + i, reps=1, all_entities=True),
                            list(range(len(ents))))
    for i, (st, r) in sorted(res.items()):
        kind, e, _ = ents[i]
        key = {"facet": "c11:selection:depends-on-other-integrals:exterior_facet:vertex-scheme",
               "ifacet": "c11:selection:depends-on-other-integrals:interior_facet:vertex-scheme",
               "vertex": "c11:selection:not-honoured:vertex:vertex-scheme",
               "tensor": "c11:selection:tensor-factors-from-other-integral:cell"}[kind]
        if st != "ok" or "error" in r:
            chk.violation(key, f"regression form {e.name} does not compile / run: {str(r if st != 'ok' else r['error'])[:200]}", {"entry": e.name})
            continue
        chk.case("quadsel_regression", e.name, n=max(1, r["compared"]), sample=None)
        for bad in r["bad"][:2]:
            chk.violation(key, f"regression form {e.name}: kernel differs from per-integral quadrature on the integration entity", {"entry": e.name, **bad})
    chk.notes["quadsel_regressions"] = {ents[i][1].name: (r["maxrel"] if st == "ok" and "error" not in r else str(r)[:80]) for i, (st, r) in sorted(res.items())}


def check_selection(chk, d, seed, n, parallel=True, only_specs=None):
    """seeded forms through the real pipeline vs the model; the property's oracle on the real result."""
    sp = only_specs if only_specs is not None else specs(seed, n)
    stats = {}
    if parallel and len(sp) > 4:
        res = cjit.parallel_map(lambda i: run_spec(sp[i]), list(range(len(sp))), timeout=900)
    else:
        res = {}
        for i in range(len(sp)):
            try:
                res[i] = ("ok", run_spec(sp[i]))
            except Exception as e:  # noqa: BLE001
                res[i] = ("exc", repr(e))
    nforms = 0
    for i in sorted(res):
        st, r = res[i]
        if st != "ok":
            chk.notes.setdefault("quadsel_infra", []).append(f"spec {i}: {st}: {str(r)[:200]}")
            continue
        if "build_error" in r:
            stats.setdefault("build_errors", {}).setdefault(r["build_error"][:60], 0)
            stats["build_errors"][r["build_error"][:60]] += 1
            continue
        nforms += 1
        chk.programs += 1
        compare(chk, d, sp[i], r, stats)
        oracle(chk, sp[i], r, stats)
        for g in r["groups"]:
            for it in g["integrals"]:
                stats.setdefault("asked", {}).setdefault(f"{g['itype']}:{_asked(it)}", 0)
                stats["asked"][f"{g['itype']}:{_asked(it)}"] += 1
            stats.setdefault("cells", {}).setdefault(g["cell"], 0)
            stats["cells"][g["cell"]] += 1
    stats["forms"] = nforms
    chk.notes["quadsel"] = stats
    if only_specs is None:
        check_regressions(chk)
    return stats


def main(argv=None):
    """stand-alone runner: never writes evidence files (does not call chk.finish)."""
    import argparse
    import os
    import time

    from . import framework

    warnings.filterwarnings("ignore")
    ap = argparse.ArgumentParser()
    ap.add_argument("--tier", default="quick")
    ap.add_argument("--n", type=int, default=None, help="number of generated forms (default: 240 quick / 1500 thorough)")
    ap.add_argument("--no-lean", action="store_true", help="skip the Lean obligations (build + axiom audit)")
    ap.add_argument("--replay", default=None, help="a spec as JSON (or a file containing it): run that form only, verbosely")
    a = ap.parse_args(argv)
    t0 = time.time()
    chk = framework.Check("C11", a.tier, int(os.environ.get("VERIF_SEED", "0") or 0))
    if not a.no_lean and not a.replay:
        chk.lean(QUADSEL_MODULE, QUADSEL_THEOREMS, extra_files=QUADSEL_FILES)
    with lean.Driver("driver_quadsel") as d:
        if a.replay:
            txt = Path(a.replay).read_text() if os.path.exists(a.replay) else a.replay
            spec = json.loads(txt)
            r = run_spec(spec)
            print("input  :", json.dumps([{k: v for k, v in g.items()} for g in r.get("groups", [])], default=str)[:3000])
            if "real" in r:
                print("real   :", r["real"]["exc"], [(x[0], _brief(x[1]) if x[0] == "ok" else x[1:]) for x in r["real"]["groups"]])
                print("model  :", ask_run(d, r["groups"], r["sum_factorization"]))
            check_selection(chk, d, chk.seed, 0, parallel=False, only_specs=[spec])
        else:
            check_tables(chk, d)
            n = a.n if a.n is not None else (240 if a.tier == "quick" else 1500)
            check_selection(chk, d, chk.seed, n)
    for m, t, ok, note in chk.obligations:
        print(f"  {'ok    ' if ok else 'BROKEN'} {t}  ({note})")
    for b in chk.broken:
        print("BROKEN:", json.dumps(b, default=str)[:2500])
    seen = set()
    for v in chk.violations:
        if v["key"] in seen:
            continue
        seen.add(v["key"])
        print("VIOLATION:", v["key"], "-", v["what"])
        print("    replay spec:", json.dumps(v["payload"]["spec"]))
        print("    group order:", json.dumps(v["payload"]["group"], default=str)[:600])
    for k, w in chk.known_hits:
        print("KNOWN-FINDING:", k, "-", w)
    print("notes:", json.dumps({k: v for k, v in chk.notes.items() if k.startswith("quadsel")}, default=str)[:4000])
    print(f"[quadsel] tier={a.tier} seed={chk.seed} evaluations={chk.evaluations} nontrivial={len(chk.nontrivial)} programs={chk.programs} "
          f"disagreements={chk.disagreements_checked} violations={len(chk.violations)} broken={len(chk.broken)} wall={time.time() - t0:.1f}s")
    return 1 if (chk.broken or chk.violations) else 0


if __name__ == "__main__":
    sys.exit(main())
