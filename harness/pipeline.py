"""Drive FFCx stage by stage on the *working tree* of /repo."""
import shutil
import tempfile
from dataclasses import dataclass, field
from pathlib import Path

import numpy as np

import ffcx
import ffcx.codegeneration.jit
from ffcx.analysis import analyze_ufl_objects
from ffcx.codegeneration.backend import FFCXBackend
from ffcx.codegeneration.expression_generator import ExpressionGenerator
from ffcx.codegeneration.integral_generator import IntegralGenerator
from ffcx.ir.representation import compute_ir
from ffcx.options import FFCX_DEFAULT_OPTIONS


def default_options(**kw):
    """Default option dict without touching the json option files."""
    o = {k: v[1] for k, v in FFCX_DEFAULT_OPTIONS.items()}
    o.update(kw)
    return o


@dataclass
class Kernel:
    """One generated kernel body."""

    kind: str  # "integral" | "expression"
    ir: object
    domain: object  # basix.CellType or None
    ast: object  # L.StatementList
    name: str = ""


def compute(objs, options=None, namespace="vf", object_names=None):
    """analysis + IR for UFL objects."""
    options = options or default_options()
    analysis = analyze_ufl_objects(objs, options["scalar_type"])
    ir = compute_ir(analysis, object_names or {}, namespace, options, False)
    return analysis, ir


def kernels(ir, options=None):
    """Yield Kernel objects (ASTs) for every integral × domain and every expression of a DataIR."""
    options = options or default_options()
    out = []
    for iir in ir.integrals:
        doms = sorted({k[0] for k in iir.expression.integrand.keys()}, key=lambda c: c.name)
        for dom in doms:
            backend = FFCXBackend(iir, options)
            ig = IntegralGenerator(iir, backend)
            ast = ig.generate(dom)
            out.append(Kernel("integral", iir, dom, ast, f"{iir.expression.name}_{dom.name}"))
    for eir in ir.expressions:
        backend = FFCXBackend(eir, options)
        eg = ExpressionGenerator(eir, backend)
        ast = eg.generate()
        out.append(Kernel("expression", eir, None, ast, eir.expression.name))
    return out


class TmpCache:
    """A JIT cache directory that is removed on exit."""

    def __enter__(self):
        self.dir = Path(tempfile.mkdtemp(prefix="ffcxverif_"))
        return self.dir

    def __exit__(self, *a):
        shutil.rmtree(self.dir, ignore_errors=True)


def _jit(fn, objs, cache_dir, options, kw):
    """Shared cache with a generous wait; a stale lock (killed earlier run) or an overloaded machine must not
    become a false alarm: on TimeoutError compile in a private sub-directory instead."""
    import os
    o = dict(options or {})
    kw = dict(kw)
    kw.setdefault("timeout", 180)
    try:
        return fn(list(objs), options=o, cache_dir=cache_dir, **kw)
    except TimeoutError:
        private = Path(cache_dir) / f"private_{os.getpid()}"
        private.mkdir(parents=True, exist_ok=True)
        try:
            return fn(list(objs), options=dict(options or {}), cache_dir=private, **kw)
        finally:
            pass


def jit_forms(forms, cache_dir, options=None, **kw):
    """compile_forms -> (compiled forms, module, code)."""
    return _jit(ffcx.codegeneration.jit.compile_forms, forms, cache_dir, options, kw)


def jit_expressions(exprs, cache_dir, options=None, **kw):
    return _jit(ffcx.codegeneration.jit.compile_expressions, exprs, cache_dir, options, kw)


_NP = {"float64": np.float64, "float32": np.float32, "complex128": np.complex128, "complex64": np.complex64}
_C = {"float64": "double", "float32": "float", "complex128": "double _Complex", "complex64": "float _Complex"}
_REAL = {"float64": np.float64, "float32": np.float32, "complex128": np.float64, "complex64": np.float32}


def call_kernel(mod, kernel_obj, scalar_type, A, w, c, x, entity=None, perm=None):
    """Call tabulate_tensor_<scalar_type>; arrays must already have the right dtypes."""
    ffi = mod.ffi
    st = _C[scalar_type]
    rt = "double" if _REAL[scalar_type] is np.float64 else "float"
    fn = getattr(kernel_obj, f"tabulate_tensor_{scalar_type}")
    ent = np.asarray(entity if entity is not None else [0], dtype=np.intc)
    prm = np.asarray(perm if perm is not None else [0], dtype=np.uint8)
    fn(
        ffi.cast(f"{st} *", A.ctypes.data),
        ffi.cast(f"{st} *", w.ctypes.data),
        ffi.cast(f"{st} *", c.ctypes.data),
        ffi.cast(f"{rt} *", x.ctypes.data),
        ffi.cast("int *", ent.ctypes.data),
        ffi.cast("uint8_t *", prm.ctypes.data),
        ffi.NULL,
    )
    return A
