"""Regenerate MANIFEST.json from the table below (run: /venv/bin/python -m harness.mkmanifest)."""
import json
from pathlib import Path

VERIF = Path(__file__).resolve().parent.parent

COMMON_NOTE = ("Trusted: Lean 4.33 kernel with axioms ⊆ {propext, Classical.choice, Quot.sound} (audited by #print axioms on every run; "
               "no sorry/native_decide/bv_decide/own axioms); the native driver's evaluation of proved checkers on concrete kernels "
               "(Lean evaluator, not kernel-checked); harness export/comparison code; Python/NumPy semantics of modelled functions tied "
               "by correspondence runs only; C compiler, libm, cffi, UFL and Basix taken as given; floating-point rounding outside every theorem.")

CHECKS = {
    "C01": dict(
        technique="Lean 4 proof (argument factorisation sound for every accepted graph; Lean transcription of the block / quadrature-loop generator with genBlock_spec, quadLoop_spec, kernel_meets_spec_partial; flattening, folding, accumulation frame theorems) + structural correspondence with the real generators + Lean semantics tied to compiled C + differential oracle",
        text=("Theorems on the cores every cell kernel rests on (row-major flattening in range/injective for any rank, global_index value, float_product, "
              "A ← A + T) hold for all inputs; the per-program part executes every exported kernel AST in the Lean semantics (Float) against the compiled C kernel "
              "and compares every cell kernel of the corpus with an independent oracle (own UFL lowering flags + NumPy interpreter + Basix) at rel. tol 1e-10. "
              "IR level: factorize_sound (the argument factorisation of every accepted expression graph preserves its value), table classification/compression/access lemmas — real graphs and tables are compared with the Lean models. "
              "Code generation: generate_block_parts, the quadrature-loop assembly and generate_partition are transcribed in Lean and compared as exact structure with every intercepted call of the real generators; "
              "genBlock_spec / nest_accumulate / quadLoop_spec prove that the emitted loop nest adds Σ_q Σ_blocks fw·Π tables to A for all block dims, point counts and table contents (side conditions decidable, evaluated on every real block); "
              "coeff_lincomb / coord_lincomb prove the coefficient and Jacobian / coordinate definition sections (Lean transcription of definitions.py and access.py, compared with every real call); kernel_meets_spec_defs_partial composes them: what remains "
              "assumed is named in its docstring (optimize is C17's subject, table values = basis functions C02/C03's, boolean temporaries, tensor-factorised coefficient sections). Floating point: partial."),
        design="DESIGN.md §6 C01"),
    "C02": dict(
        technique="Lean 4 proof (macro layout bijections, facet maps, complete reference-geometry tables by decide) + regenerated tables + independent facet oracle",
        text=("facet_map_vertices/affine, refgeom_tables, refgeom_nonvacuous, refgeom_access_partial (+ refgeom_access_counterexample in FfcxProofs.C02Known: the known finding), entity_table_read "
              "(what a kernel reads from a table is the basis function at the reference-entity map of the indicated local entity, at the point permuted by the indicated code), entity_by_restriction, macro_layout are proved "
              "(finite tables completely, layouts and table reads for any sizes); Generated/RefCells.lean is regenerated from /repo on every run; real table arrays and the real table_access subscripts are compared value by value with the model; "
              "C kernels are compared with a NumPy+Basix oracle for every local entity of every cell type (affine and non-affine facet geometry) and with the generic oracle on the facet forms of the shared corpus."),
        design="DESIGN.md §6 C02"),
    "C03": dict(
        technique="Lean 4 proof (facet permutation groups S2/S3/D4 for all points; flag_false_independent over the LNodes semantics) + numbering-invariance search",
        text=("perm_group_*, perm_compose, vertex_aligned_iff, table_access_spec(_noperm), aligned_table_read, aligned_invariance_partial (over tableAccess ∘ buildTable: codes matched on the facet vertices give the same facet sum for both numberings; "
              "remaining hypotheses: the facet symmetry and the element push-forward), facet_sum_change_of_variables, drop_perm_axis, flag_false_independent are proved; the generator obligation "
              "(flag false ⇒ AST does not read quadrature_permutation) is checked on every interior-facet kernel (31 flagged true, 9 flagged false in the quick corpus); compiled kernels are run for ALL pairs of local numberings "
              "(4/36/64/576/2304 for interval/triangle/quadrilateral/tetrahedron/hexahedron) in both tiers."),
        design="DESIGN.md §6 C03"),
    "C04": dict(
        technique="Lean 4 proof (expression tensor layout, descriptor model) + correspondence + differential oracle",
        text=("expr_store_slot(_rank0) + exprStores_sound: every store into A of every exported expression AST is decided to be A[MultiIndex([iq, component, dof], [P, C, D])] (exprStoresB), which the theorems map to the slot of expr_layout; "
              "expr_layout(_inj), expr_descriptor, orig_positions, expr_num_constants are proved for any sizes; descriptor fields of real expressions (IR, generated C, cffi read-back) are "
              "compared with the model; every expression kernel of the corpus is compared with the pointwise oracle for every local facet."),
        design="DESIGN.md §6 C04"),
    "C05": dict(
        technique="Lean 4 proof (noninterference: unread_irrelevant, reads_data_independent; composition with the packing contract: disabled_irrelevant, reads_in_blocks; block tiling) + decidable certificates readOnly / readsAvoidB / readsInBlocksB evaluated per kernel and (entity, permutation) tuple + NaN poisoning + packing oracle",
        text=("For kernels that only read w (decidable readOnly, evaluated on every kernel for w, c, coordinate_dofs, entity_local_index, quadrature_permutation), a run whose recorded reads of w avoid a set D is unaffected by ANY change of w inside D, "
              "and the read list is independent of scalar data (unread_irrelevant, reads_data_independent); disabled_irrelevant composes this with the packing contract: if the reads of w avoid the blocks of the coefficients whose enabled_coefficients "
              "flag is false (decidable readsAvoidB) the result does not depend on the values stored for those coefficients, for all data; reads_in_blocks attributes every read of w to exactly one coefficient block. The driver evaluates readsAvoidB / "
              "readsInBlocksB for every (entity, permutation) tuple up to 300 (quick) / 1000 (thorough) tuples per kernel (above the cap: all tuples at the extreme values of either argument plus a seeded sample), with blocks computed from UFL and flags from the IR; "
              "kernels that declare integer arrays are outside the LNodes model and are counted, not checked; layout prefix sums are proved to tile and are compared with the real IR; coeffAccess is compared with the index expressions the real "
              "symbols.coefficient_dof_access(_blocked) build; selected forms are compared with the independent oracle, which reads w and c at the positions the contract defines."),
        design="DESIGN.md §6 C05"),
    "C06": dict(
        technique="Lean 4 proof (argsort as a relation, offsets, id expansion) + correspondence on real and synthetic FormIRs + descriptor read-back + summation search",
        text=("ids_sorted, triples_preserved, offsets_delimit, kernels_of_type, dispatch (a permutation of the declared (id, name, domain) triples), expand_ids, minus_one_only_otherwise, otherwise_not_folded, formIR_ids_in_range, "
              "formIR_rejects_large, enum_order hold for every id/domain list; the model is compared with integral_data/_compute_form_ir on real and synthetic inputs (ids around ±2³¹ included); the emitted form_integrals / form_integral_ids / "
              "form_integral_offsets initialisers of the real C generator and the compiled tables are compared with the model's emit*; compiled descriptors are read back and kernels summed per (type,id), incl. several kernels per id and `otherwise` next to explicit ids."),
        design="DESIGN.md §6 C06"),
    "C07": dict(
        technique="Lean 4 proof (relational frame theorems over the LNodes semantics) + proved static certificate per kernel + differential C runs",
        text=("Theorems pure_accumulates / call_adds / pure_history / incrSum_perm / inputs_unchanged hold for every kernel satisfying the decidable "
              "certificate pureKernel, for ALL initial A, all inputs and all call histories; the certificate is evaluated on every generated kernel AST "
              "(optimised and unoptimised). Thread interleavings below statement granularity are only sampled (8 threads, bitwise comparison)."),
        design="DESIGN.md §6 C07"),
    "C08": dict(
        technique="Lean 4 proof (errors of the instrumented semantics are independent of scalar data: oob_data_independent) + exhaustive shape runs per kernel",
        text=("bounds_sound: one error-free run over the one-point scalar domain with arrays of exactly the contract extents proves absence of out-of-bounds "
              "reads/writes for ALL scalar inputs; the check enumerates the valid (entity, permutation) tuples of every kernel of the corpus — all of them up to 300 (quick) / 1200 (thorough) per kernel, beyond that every tuple at an extreme value of either argument plus a seeded sample (hexahedron / tetrahedron interior facets; listed in the evidence). Extents come from "
              "UFL/Basix, not from FFCx's IR. C kernels additionally run with NaN sentinels/canaries."),
        design="DESIGN.md §6 C08"),
    "C09": dict(
        technique="Lean 4 proof (dtype discipline sound: under a per-kernel certificate the truncating C semantics equals the exact semantics; dtype merge laws; conj/real/imag folding) + complete math-table signature scan + four-way differential vs oracle",
        text=("dtype_sound / truncation_free / real_targets_receive_reals: for every kernel passing the decidable certificate dtypeCert no complex value is ever stored into a double temporary or passed to a real math function "
              "(certificate evaluated on every real kernel, complex128 and float64, optimised and unoptimised); mathfn_fold_sound, mergeDtypes_* are proved; the math-function table is scanned completely (function × scalar type × argument dtypes "
              "against a C99 signature table); complex-argument probes must be rejected or match complex arithmetic; every selected form is compiled for the four scalar types and compared "
              "with the oracle on real and complex data (complex mode: oracle evaluates UFL's sesquilinear lowering in complex arithmetic). Precision agreement is floating point: differential."),
        design="DESIGN.md §6 C09"),
    "C10": dict(
        technique="Lean 4 proof (closed forms of what the generated diagonal and sum-factorised loop nests add to A, equal to the full / unfactorised sums; sum-factorisation identity; clamp bound) + structural correspondence with the real generator + option-pair differential runs",
        text=("genBlock_diagonal_spec + diagonal_of_full (the part='diagonal' kernel tensor is the diagonal of the full kernel tensor when the block maps coincide), genBlock_tensor_spec + tensor_equals_full (the sum-factorised nest equals the unfactorised "
              "block sum when each table is the tensor product of its 1D factor tables — checked numerically on every real sum-factorised group), for the Lean transcription of generate_block_parts that is compared structurally with the real generator; "
              "sum_factorization_identity(3), flat_pair_bijective, diagonal_of_outer, clamp_bound_real are proved for all rules/sizes; kernels compiled with/without sum_factorization, "
              "part='diagonal', and swept table tolerances are compared with each other and with the oracle; inapplicable options must leave the generated code unchanged."),
        design="DESIGN.md §6 C10"),
    "C11": dict(
        technique="Lean 4 proof (Lean transcription of the rule-selection and grouping pipeline with honoured-degree/scheme/entity/partition theorems over all groups; tensor-product rule moments, vertex scheme) + model/implementation correspondence + exact rational closed forms + per-integral-rule oracle",
        text=("explicit_degree_honoured, default_degree_is_estimate, scheme_honoured, custom_only_from_own_elements, custom_overrides, vertex_scheme_entity, rule_lives_on_entity(_prism), grouping_partition / grouping_perm / summed_sum, selection_independent_of_order "
              "are proved for the Lean transcription of _analyze_form's metadata logic and _group_integrands_by_quadrature_rule, which is compared with the real functions on seeded forms (all cells, dx/ds/dS/dP/dr, metadata, quadrature elements, sum factorisation; every rule array "
              "re-derived from an independent Basix call or the vertex closed form); tensor_rule_exact(3/_upto), moment_linear, vertex_rule_exact1, group_partition are proved; degree-q kernels are compared on random affine cells with exact rational monomial integrals "
              "(quick: 10 degrees up to 15, thorough 0..30); forms with several rules on one subdomain are compared with per-integral quadrature; default degree vs high degree."),
        design="DESIGN.md §6 C11"),
    "C12": dict(
        technique="Lean 4 proof (sorted/dedup canonicalisation, per-site invariance, complete site inventory by decide) + source scanner + subprocess differential",
        text=("Every order/identity-sensitive site found by the AST scanner must be modelled (inventory_complete, decide) and each modelled site has an invariance theorem; "
              "the failing-input search regenerates code in subprocesses with different PYTHONHASHSEED and histories and compares bytes."),
        design="DESIGN.md §6 C12"),
    "C13": dict(
        technique="Lean 4 proof (injectivity of the pre-hash encoding modulo digests, both platform branches; invariance of the expression renumbering under counter relabelling and set iteration order; names from positions) + captured pre-hash strings and renumbering dicts + separation/stability search",
        text=("encode_inj / encode_inj_win32 (pre-hash string only; explicit digest-injectivity hypothesis), join_inj, concat_fixed_inj, options_sorted_inj, tag_inj, ident_valid, names_distinct (distinct positions ⇒ distinct names, whatever the signatures; "
              "fails for two integration domains: known finding) are proved; stability: renumbering_invariant, set_order_irrelevant, signature_stable_across_processes over a Lean transcription of the renumbering in naming.py (hypothesis: the expression's own "
              "coefficients/constants keep their relative creation order — otherwise the kernels differ, renumbering_order_counterexample; UFL's tree hash and operand ordering are opaque/upstream); pre-hash strings, rn dicts, set iteration orders and terminal "
              "signature data are captured from the real code and compared with the model; request pairs differing in one ingredient (incl. part='diagonal' on scalar/blocked/mixed spaces, the same points split differently between the expressions of a request) must separate when the generated kernels differ; names are stable across "
              "processes/hash seeds/histories."),
        design="DESIGN.md §6 C13"),
    "C14": dict(
        technique="Lean 4 proof (inductive invariant over every reachable state of an N-process transition system) + forced-schedule correspondence on the real jit.py",
        text=("at_most_one_builder, exactly_one_builder (a failure-free run compiles and links exactly once), marker_implies_complete, load_only_complete (and the loaded module is the one the unique builder linked), reuse, timeout_bound, "
              "no_failure_all_succeed hold for every N, interleaving and fault choice at the granularity of the file-system steps (incl. the temp-file / publish steps of the ready marker); the real compile_forms and compile_expressions are run under a "
              "deterministic scheduler on all 2-process schedules up to the first marker and seeded 3-process schedules. The property oracle judges every finished schedule; complaints read off a request's outcome (an exception other than TimeoutError without injected faults, wrong kernel values) are concrete violations even when the trace no longer matches the model. "
              "Atomicity of OS steps and the import machinery are trusted (partial)."),
        design="DESIGN.md §6 C14, App. B"),
    "C15": dict(
        technique="Lean 4 proof (same transition system with fail/kill/retry transitions) + fault injection on the real jit.py",
        text=("fail_releases_lock, kill_safe, marker_after_compile, globals_restored, no_poison (no request ever meets an existing marker or temp file; no lock ⇒ no marker) hold in every reachable state with any faults, "
              "the fault domain including every step of writing and publishing the ready marker; every modelled fail/kill point × later request is replayed on the real code (compile_forms and compile_expressions), "
              "checking exception, directory contents, root logger handlers, stdout, and the next request's outcome."),
        design="DESIGN.md §6 C15, App. B"),
    "C16": dict(
        technique="Lean 4 proof (formatter → lexer → parser round trip for every well-formed expression AND statement tree, C and Python grammars; literal exactness) + exact-text correspondence + independent parsers (pycparser, Python ast)",
        text=("roundtrip_C, roundtrip_stmt_C, roundtrip_Py, roundtrip_stmt_Py (every well-formed tree: parse(lex(format t)) = erase t — operator nesting, operands, subscripts, loop bounds, declarations, INDENT/DEDENT), no_token_fusion(_py), "
              "format_C_total, norm_eval, local_faithful(_py) over the regenerated precedence table, literal_readback_exact / literal_exact_17 on exact rationals; counterexamples show each well-formedness hypothesis is needed and the hypotheses are "
              "evaluated on every real kernel statement. The Lean transcriptions of both formatters are compared "
              "as exact text with the real ones on all depth-2 parent/child/position trees, seeded deep trees and every statement of real kernels; the real output is re-parsed with pycparser / ast and compared structurally and by value."),
        design="DESIGN.md §6 C16"),
    "C17": dict(
        technique="Lean 4 proof (operator folding sound for all operands in any field; Lean transcription of optimizer.py with optimize_sound under decidable per-kernel certificates) + structural correspondence + exact differential execution",
        text=("add/radd/sub/rsub/mul/rmul/div/rdiv/neg_sound, float_product_sound, global_index_value are proved for ALL operand trees and values over any lawful field; "
              "the Lean transcription is tied to lnodes.py by exhaustive structural comparison over an operand pool covering every class and literal trigger value. "
              "Optimiser: optimizer.py (fuse_sections, fuse_loops, check_dependency, licm, optimize) is transcribed in Lean and compared structurally with the real optimize() on every captured part list; "
              "fuse_sections_sound, loop_fusion_sound, fuse_loops_sound, licm_sound, optimize_sound / optimize_preserves_A are proved for every part list satisfying the decidable certificate optimizeCert, "
              "which is evaluated on every real kernel (a failing certificate breaks the tie); check_dependency's incompleteness is proved by counterexample and searched for in real kernels; "
              "optimised and unoptimised ASTs are additionally executed exactly over Rat."),
        design="DESIGN.md §6 C17"),
    "C18": dict(
        technique="Lean 4 proof (the C and numba descriptor generators agree for all IRs; declared kernel extents = contract extents) + model/implementation correspondence for both backends + complete numba function table scan + plain-Python execution vs C",
        text=("form_same_encoding / form_descriptors_agree / form_descriptors_agree_compiled / integral_descriptors_agree / expression_descriptors_partial: Lean transcriptions of the C and numba form, integral and expression "
              "generators produce the same descriptor for every IR (ids, offsets, names, positions, shapes; NULL exactly where numba has None), each transcription is compared with the real backend output on the corpus and on synthetic IRs; "
              "tensor_sizes_integral/expression are proved for any integral type and sizes; every math-function handler is formatted by the numba formatter and must be a call of an existing callable; "
              "each generated numba module is parsed, executed in plain Python with bounds-checked carray views of exactly the declared extents, and compared kernel by kernel and field by field with the C backend. "
              "The Python-grammar round trip of the numba formatter is C16's subject."),
        design="DESIGN.md §6 C18"),
    "C19": dict(
        technique="Lean 4 proof (complete rule-id table by decide +kernel; scope checker sound w.r.t. a scope-aware semantics; flat semantics faithful under a per-kernel certificate; factorisation rejection theorems) + real compilation + malformed stream",
        text=("rule_ids_distinct is decided over the regenerated table of all rules (cell × degree 0..30 × scheme); the block-scoping checker runs on every kernel AST and is proved sound (scoped_sound, kernel_scoped_sound, scoped_tight, "
              "kernel_flat_faithful under flatCert, evaluated per kernel); every corpus form and seeded multi-rule forms (incl. different rules of equal size) "
              "are really compiled with -std=c17 -Wall -Werror=implicit-function-declaration; unsupported inputs must raise a Python exception before code is generated."),
        design="DESIGN.md §6 C19"),
    "C20": dict(
        technique="Lean 4 proof (option merge precedence, CLI collection; header/source consistency for every lexically self-contained filling of the regenerated template pairs, carried through format_code) + correspondence (recorded real template instantiations, IndexError cases) + real ffcx runs on fixed and seeded generated UFL files compiled stand-alone",
        text=("merge_precedence, cli_only_given, decl_defined_templates (for every filling of the holes of the C template pairs — regenerated from the template strings and compared byte by byte — that satisfies the lexical obligations, each extern-declared name is defined "
              "by the implementation instance), cli_header_source_consistent (format_code: header = declarations, source = implementations in the same block order, every declared name defined in the source text), format_code_concat with the IndexError branch, sanitise_ident "
              "are proved; decl_defined_probes is a regression table. Every real template instantiation (probes and CLI runs) is recorded: the model's instance must equal the emitted text, the filling must meet the obligations, declaration and implementation must be filled "
              "alike. get_options/parse_args/format_code are compared with the model on random inputs (ragged included); the precedence sentence (command line > $PWD json > user json > default) is evaluated as an oracle on the real main for every option and random source combination; fixed and seeded generated .ufl files (cells × elements × integrals × names × file names × -n/-o/-i × scalar types × $PWD json) go through ffcx.main.main, "
              "are compiled stand-alone, checked with nm, compared with the JIT path, and the numba output is imported and compared."),
        design="DESIGN.md §6 C20"),
}


def main():
    props = [json.loads(l) for l in (VERIF / "properties.jsonl").read_text().splitlines() if l.strip()]
    checks = []
    na = []
    for p in props:
        pid = p["id"]
        if pid in CHECKS and (VERIF / "harness" / "props" / f"{pid.lower()}.py").exists():
            c = CHECKS[pid]
            checks.append({
                "property_id": pid,
                "quick_cmd": f"./check {pid} --tier quick",
                "thorough_cmd": f"./check {pid} --tier thorough",
                "evidence_file": f"evidence/{pid}.json",
                "replay_cmd_template": f"./check {pid} --replay {{path}}",
                "engine": "lean4+harness",
                "level_claimed": {"category": "proof", "text": c["text"], "design_ref": c["design"]},
                "level_note": c.get("note", "") + COMMON_NOTE,
                "technique": c["technique"],
            })
        else:
            na.append({"property_id": pid, "reason": "check not built yet (work in progress; planned, see DESIGN.md section 6)"})
    m = {
        "version": 1,
        "setup_cmd": "cd lean && lake build",
        "hooks": {
            "guard": "FFCX_VERIF",
            "enable": "no source hooks: the harness imports /repo's working tree (editable install) and observes it through FFCx's own functions and monkeypatching from the harness process",
            "baseline_off_cmd": "cd /repo && /venv/bin/python -m pytest -ra -q -p no:cacheprovider --timeout=900 --continue-on-collection-errors",
            "source_commits": [],
            "add_only": True,
        },
        "engines": [
            {"name": "lean4+harness", "path": "lean/ + harness/",
             "serves_properties": [c["property_id"] for c in checks],
             "kind_free_text": "Lean 4 models and theorems (lake project lean/), native line-protocol drivers, Python harness tying the models to /repo's working tree"},
        ],
        "checks": checks,
        "notes": "Each check: regenerate translator tables from /repo, rebuild + axiom-audit the property's theorems, run the model/implementation correspondence and the failing-input search, write evidence. See DESIGN.md.",
        "not_applicable": na,
    }
    (VERIF / "MANIFEST.json").write_text(json.dumps(m, indent=1, ensure_ascii=False))
    print(f"{len(checks)} checks, {len(na)} not yet claimed")


if __name__ == "__main__":
    main()
