"""Regenerate MANIFEST.json from the table below (run: /venv/bin/python -m harness.mkmanifest)."""
import json
from pathlib import Path

VERIF = Path(__file__).resolve().parent.parent

COMMON_NOTE = ("Trusted: Lean 4.33 kernel with axioms ⊆ {propext, Classical.choice, Quot.sound} (audited by #print axioms on every run; "
               "no sorry/native_decide/bv_decide/own axioms); the native driver's evaluation of proved checkers on concrete kernels "
               "(Lean evaluator, not kernel-checked); harness export/comparison code; Python/NumPy semantics of modelled functions tied "
               "by correspondence runs only; C compiler, libm, cffi, UFL and Basix taken as given; floating-point rounding outside every theorem.")

CHECKS = {
    "C07": dict(
        technique="Lean 4 proof (relational frame theorems over the LNodes semantics) + proved static certificate per kernel + differential C runs",
        text=("Theorems pure_accumulates / call_adds / pure_history / incrSum_perm / inputs_unchanged hold for every kernel satisfying the decidable "
              "certificate pureKernel, for ALL initial A, all inputs and all call histories; the certificate is evaluated on every generated kernel AST "
              "(optimised and unoptimised). Thread interleavings below statement granularity are only sampled (8 threads, bitwise comparison)."),
        design="DESIGN.md §6 C07"),
    "C08": dict(
        technique="Lean 4 proof (errors of the instrumented semantics are independent of scalar data: oob_data_independent) + exhaustive shape runs per kernel",
        text=("bounds_sound: one error-free run over the one-point scalar domain with arrays of exactly the contract extents proves absence of out-of-bounds "
              "reads/writes for ALL scalar inputs; the check enumerates EVERY valid (entity, permutation) tuple for every kernel of the corpus. Extents come from "
              "UFL/Basix, not from FFCx's IR. C kernels additionally run with NaN sentinels/canaries (thorough: larger corpus)."),
        design="DESIGN.md §6 C08"),
    "C17": dict(
        technique="Lean 4 proof (operator folding sound for all operands in any field; optimiser algebra) + structural correspondence + exact differential execution",
        text=("add/radd/sub/rsub/mul/rmul/div/rdiv/neg_sound, float_product_sound, global_index_value are proved for ALL operand trees and values over any lawful field; "
              "the Lean transcription is tied to lnodes.py by exhaustive structural comparison over an operand pool covering every class and literal trigger value. "
              "Optimiser: prod_perm_sound / licm_factor_sound / execL_append (+ section fusion partial); the state-dependent side conditions are validated per kernel by "
              "executing optimised and unoptimised ASTs exactly over Rat (per-program, labelled so)."),
        design="DESIGN.md §6 C17"),
}


def main():
    props = [json.loads(l) for l in (VERIF / "properties.jsonl").read_text().splitlines() if l.strip()]
    checks = []
    na = []
    for p in props:
        pid = p["id"]
        if pid in CHECKS and (VERIF / "harness" / "props" / f"{pid.lower()}.py").exists():
            c = CHECKS[pid]
            checks.append({
                "property_id": pid,
                "quick_cmd": f"./check {pid} --tier quick",
                "thorough_cmd": f"./check {pid} --tier thorough",
                "evidence_file": f"evidence/{pid}.json",
                "replay_cmd_template": f"./check {pid} --replay {{path}}",
                "engine": "lean4+harness",
                "level_claimed": {"category": "proof", "text": c["text"], "design_ref": c["design"]},
                "level_note": c.get("note", "") + COMMON_NOTE,
                "technique": c["technique"],
            })
        else:
            na.append({"property_id": pid, "reason": "check not built yet (work in progress; planned, see DESIGN.md section 6)"})
    m = {
        "version": 1,
        "setup_cmd": "cd lean && lake build",
        "hooks": {
            "guard": "FFCX_VERIF",
            "enable": "no source hooks: the harness imports /repo's working tree (editable install) and observes it through FFCx's own functions and monkeypatching from the harness process",
            "baseline_off_cmd": "cd /repo && /venv/bin/python -m pytest -ra -q -p no:cacheprovider --timeout=900 --continue-on-collection-errors",
            "source_commits": [],
            "add_only": True,
        },
        "engines": [
            {"name": "lean4+harness", "path": "lean/ + harness/",
             "serves_properties": [c["property_id"] for c in checks],
             "kind_free_text": "Lean 4 models and theorems (lake project lean/), native line-protocol drivers, Python harness tying the models to /repo's working tree"},
        ],
        "checks": checks,
        "notes": "Each check: regenerate translator tables from /repo, rebuild + axiom-audit the property's theorems, run the model/implementation correspondence and the failing-input search, write evidence. See DESIGN.md.",
        "not_applicable": na,
    }
    (VERIF / "MANIFEST.json").write_text(json.dumps(m, indent=1, ensure_ascii=False))
    print(f"{len(checks)} checks, {len(na)} not yet claimed")


if __name__ == "__main__":
    main()
