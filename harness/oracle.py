"""Independent reference evaluator for forms and expressions (search oracle, never a theorem).

What it shares with FFCx: UFL (symbolic preprocessing: algebra lowering, derivatives, pull-backs,
integral scaling, geometry lowering, restriction propagation — called here with this module's OWN
flags, not through ffcx.analysis) and Basix (element tabulation, quadrature data, reference cells).
What it does not share: anything under ffcx/ (no IR, no tables, no factorisation, no LNodes, no C).

The preprocessed integrand is interpreted directly with NumPy at every quadrature point:
values are arrays of shape  ufl_shape + (n_test|1, n_trial|1)  (arguments live on the two trailing
axes, everything else broadcasts), free indices are bound in an environment.
"""
import itertools
import math

import basix
import basix.ufl
import numpy as np
import ufl
import ufl.algorithms
import ufl.classes as C
from ufl.algorithms.apply_algebra_lowering import apply_algebra_lowering
from ufl.algorithms.apply_derivatives import apply_derivatives
from ufl.algorithms.apply_function_pullbacks import apply_function_pullbacks
from ufl.algorithms.apply_geometry_lowering import apply_geometry_lowering
from ufl.algorithms.remove_complex_nodes import remove_complex_nodes


class OracleUnsupported(Exception):
    """The oracle does not model this construct (the case is skipped, never a verdict)."""


# ----------------------------------------------------------------------------- reference cells
def cell_type(name):
    return getattr(basix.CellType, name)


def sub_entity_vertices(cellname, dim, index):
    ct = cell_type(cellname)
    geom = np.asarray(basix.geometry(ct), dtype=float)
    return np.array([geom[i] for i in basix.topology(ct)[dim][index]])


def map_entity_points(cellname, dim, index, pts):
    """Affine map of reference-entity points into the reference cell (own implementation)."""
    v = sub_entity_vertices(cellname, dim, index)
    pts = np.asarray(pts, dtype=float)
    if dim == 0:
        return v[:1].copy()
    out = np.tile(v[0], (pts.shape[0], 1))
    for k in range(pts.shape[1]):
        out += np.outer(pts[:, k], v[k + 1] - v[0])
    return out


def facet_cellname(cellname, facet):
    ct = cell_type(cellname)
    tdim = len(basix.topology(ct)) - 1
    return basix.cell.subentity_types(ct)[tdim - 1][facet].name


# ----------------------------------------------------------------------- element tabulation
def ref_tab(e, nd, pts):
    """Reference basis functions: array [deriv-index][point][dof][reference component]."""
    pts = np.asarray(pts, dtype=float)
    if isinstance(e, basix.ufl._BlockedElement):
        sub = ref_tab(e._sub_element, nd, pts)  # [d][p][k][c_sub]
        bs = e._block_size
        nder, npt, nk, ncs = sub.shape
        if ncs != 1:
            raise OracleUnsupported("blocked element of a vector-valued sub-element")
        # reference components are laid out flat over reference_value_shape; with symmetry only the
        # first `bs` flat slots are populated (UFL's SymmetricPullback reads exactly those)
        nflat = max(bs, int(np.prod(e.reference_value_shape)) if e.reference_value_shape else 1)
        out = np.zeros((nder, npt, nk * bs, nflat))
        for b in range(bs):
            out[:, :, b::bs, b] = sub[:, :, :, 0]
        return out
    if isinstance(e, basix.ufl._MixedElement):
        tabs = [ref_tab(s, nd, pts) for s in e._sub_elements]
        nder, npt = tabs[0].shape[:2]
        ndof = sum(t.shape[2] for t in tabs)
        ncomp = sum(t.shape[3] for t in tabs)
        out = np.zeros((nder, npt, ndof, ncomp))
        d0 = c0 = 0
        for t in tabs:
            out[:, :, d0:d0 + t.shape[2], c0:c0 + t.shape[3]] = t
            d0 += t.shape[2]
            c0 += t.shape[3]
        return out
    if isinstance(e, basix.ufl._QuadratureElement):
        qp = np.asarray(e._points, dtype=float)
        nder = len(list(_deriv_tuples(pts.shape[1], nd)))
        out = np.zeros((nder, pts.shape[0], qp.shape[0], 1))
        for i, p in enumerate(pts):
            hit = [j for j, qq in enumerate(qp) if np.allclose(p, qq, atol=1e-12)]
            if len(hit) != 1:
                raise OracleUnsupported("quadrature element evaluated away from its points")
            out[0, i, hit[0], 0] = 1.0
        return out
    if isinstance(e, basix.ufl._RealElement):
        nder = len(list(_deriv_tuples(pts.shape[1], nd)))
        vs = max(1, int(np.prod(e.reference_value_shape)))
        out = np.zeros((nder, pts.shape[0], vs, vs))
        for c in range(vs):
            out[0, :, c, c] = 1.0
        return out
    if isinstance(e, basix.ufl._BasixElement):
        t = e._element.tabulate(nd, pts)  # [d][p][dof][comp]
        return np.asarray(t, dtype=float)
    raise OracleUnsupported(f"element class {type(e).__name__}")


def _deriv_tuples(tdim, nd):
    for total in range(nd + 1):
        for t in itertools.product(range(total + 1), repeat=tdim):
            if sum(t) == total:
                yield t


def deriv_index(counts):
    return basix.index(*counts)


# ------------------------------------------------------------------------------ preprocessing
def preprocess_form(form, complex_mode=False):
    """UFL lowering with this module's own flags (the ones the UFCx contract implies)."""
    return ufl.algorithms.compute_form_data(
        form,
        do_apply_function_pullbacks=True,
        do_apply_integral_scaling=True,
        do_apply_geometry_lowering=True,
        preserve_geometry_types=(C.Jacobian,),
        do_apply_restrictions=True,
        do_append_everywhere_integrals=False,
        complex_mode=complex_mode,
    )


def preprocess_expression(expr, complex_mode=False):
    keep = (C.Jacobian,)
    e = apply_algebra_lowering(expr)
    e = apply_derivatives(e)
    e = apply_function_pullbacks(e)
    e = apply_geometry_lowering(e, keep)
    e = apply_derivatives(e)
    e = apply_geometry_lowering(e, keep)
    e = apply_derivatives(e)
    if not complex_mode:
        e = remove_complex_nodes(e)
    return e


# -------------------------------------------------------------------------------- interpreter
class Context:
    """Everything the interpreter needs at ONE evaluation point."""

    def __init__(self, cellname, gdim, coord_element, coords, X, arg_dims, coef_index, coef_offsets, coef_dims,
                 w, const_offsets, c, weight, width, facets=None, n_q_index=None, cell_orientation=1.0):
        self.cellname = cellname
        self.tdim = len(basix.topology(cell_type(cellname))) - 1
        self.gdim = gdim
        self.coord_element = coord_element  # scalar basix element of the coordinate map
        self.coords = coords  # {side: [node][gdim]}
        self.X = X  # {side: reference cell point (1, tdim)}
        self.arg_dims = arg_dims  # [n0, n1] (per cell, not macro)
        self.coef_index = coef_index  # {Coefficient: k}
        self.coef_offsets = coef_offsets
        self.coef_dims = coef_dims
        self.w = w
        self.const_offsets = const_offsets  # {Constant: offset}
        self.c = c
        self.weight = weight
        self.width = width
        self.facets = facets or {}
        self.memo = {}
        self.tabs = {}
        self.cell_orientation = cell_orientation

    def tab(self, e, side, nd):
        key = (id(e), side, nd)
        if key not in self.tabs:
            self.tabs[key] = ref_tab(e, nd, self.X[side])
        return self.tabs[key]

    def coord_tab(self, side, nd):
        key = ("x", side, nd)
        if key not in self.tabs:
            self.tabs[key] = np.asarray(self.coord_element.tabulate(nd, self.X[side]), dtype=float)
        return self.tabs[key]


def _side(side):
    return side if side in ("+", "-") else "+"


_MATH = {
    C.Sqrt: np.sqrt, C.Exp: np.exp, C.Ln: np.log, C.Cos: np.cos, C.Sin: np.sin, C.Tan: np.tan,
    C.Cosh: np.cosh, C.Sinh: np.sinh, C.Tanh: np.tanh, C.Acos: np.arccos, C.Asin: np.arcsin, C.Atan: np.arctan,
}


def _erf(x):
    return np.vectorize(math.erf)(np.real(x))


class Interp:
    def __init__(self, ctx):
        self.ctx = ctx

    # value shape convention: ufl_shape + (a0, a1) with a0 ∈ {1, n_test_macro}, a1 ∈ {1, n_trial_macro}
    def ev(self, e, env, side=None, derivs=()):
        fi = e.ufl_free_indices
        key = (id(e), side, derivs, tuple(env.get(i) for i in fi))
        m = self.ctx.memo.get(key)
        if m is not None:
            return m
        v = self._ev(e, env, side, derivs)
        self.ctx.memo[key] = v
        return v

    def scalar(self, v):
        return np.asarray(v)

    def _const(self, val, shape=()):
        return np.asarray(val).reshape(tuple(shape) + (1, 1))

    def _ev(self, e, env, side, derivs):
        ctx = self.ctx
        # ---- literals
        if isinstance(e, C.Zero):
            return np.zeros(tuple(e.ufl_shape) + (1, 1))
        if isinstance(e, (C.IntValue, C.FloatValue, C.ScalarValue)):
            if derivs:
                return np.zeros((1, 1))
            return self._const(float(e.value()) if not isinstance(e.value(), complex) else e.value())
        if isinstance(e, C.ComplexValue):
            return self._const(complex(e.value()))
        if isinstance(e, C.Identity):
            return np.eye(e.ufl_shape[0]).reshape(e.ufl_shape + (1, 1))
        # ---- modifiers
        if isinstance(e, C.Restricted):
            return self.ev(e.ufl_operands[0], env, e.side(), derivs)
        if isinstance(e, C.ReferenceGrad):
            inner = e.ufl_operands[0]
            parts = [self.ev(inner, env, side, derivs + (d,)) for d in range(ctx.tdim)]
            # new axis goes after inner's ufl_shape
            k = len(inner.ufl_shape)
            return np.stack(parts, axis=k)
        if isinstance(e, C.ReferenceValue):
            return self._terminal_refvalue(e.ufl_operands[0], side, derivs)
        if isinstance(e, C.Variable):
            return self.ev(e.ufl_operands[0], env, side, derivs)
        # ---- indexing
        if isinstance(e, C.Indexed):
            A, mi = e.ufl_operands
            v = self.ev(A, env, side, derivs)
            idx = tuple(int(i) if isinstance(i, C.FixedIndex) else env[i.count()] for i in mi)
            return v[idx]
        if isinstance(e, C.ComponentTensor):
            body, mi = e.ufl_operands
            shape = e.ufl_shape
            out = None
            for comb in itertools.product(*[range(s) for s in shape]):
                env2 = dict(env)
                for i, val in zip(mi, comb):
                    env2[i.count()] = val
                v = self.ev(body, env2, side, derivs)
                if out is None:
                    out = np.zeros(tuple(shape) + v.shape[len(body.ufl_shape):], dtype=np.result_type(v, float))
                if v.shape[-2:] != out.shape[-2:] or np.iscomplexobj(v) and not np.iscomplexobj(out):
                    new = np.zeros(tuple(shape) + tuple(max(a, b) for a, b in zip(out.shape[-2:], v.shape[-2:])),
                                   dtype=np.result_type(out, v))
                    new[...] = out
                    out = new
                out[comb] = v
            return out
        if isinstance(e, C.IndexSum):
            body, mi = e.ufl_operands
            (i,) = mi
            tot = 0
            for val in range(e.dimension()):
                env2 = dict(env)
                env2[i.count()] = val
                tot = tot + self.ev(body, env2, side, derivs)
            return tot
        if isinstance(e, C.ListTensor):
            parts = [self.ev(o, env, side, derivs) for o in e.ufl_operands]
            a0 = max(p.shape[-2] for p in parts)
            a1 = max(p.shape[-1] for p in parts)
            parts = [np.broadcast_to(p, p.shape[:-2] + (a0, a1)) for p in parts]
            return np.stack(parts, axis=0)
        if derivs:
            # derivatives only reach terminals after apply_derivatives
            if isinstance(e, (C.Jacobian, C.SpatialCoordinate)):
                pass
            else:
                raise OracleUnsupported(f"reference derivative of {type(e).__name__}")
        # ---- terminals
        if isinstance(e, C.QuadratureWeight):
            return self._const(ctx.weight)
        if isinstance(e, C.Constant):
            off = ctx.const_offsets[e]
            n = int(np.prod(e.ufl_shape)) if e.ufl_shape else 1
            return np.asarray(ctx.c[off:off + n]).reshape(tuple(e.ufl_shape) + (1, 1))
        if isinstance(e, C.Jacobian):
            return self._jacobian(_side(side), derivs)
        if isinstance(e, C.SpatialCoordinate):
            return self._x(_side(side), derivs)
        if isinstance(e, C.CellCoordinate):
            return ctx.X[_side(side)][0].reshape(-1, 1, 1)
        if isinstance(e, C.ReferenceCellVolume):
            return self._const(basix.cell.volume(cell_type(ctx.cellname)))
        if isinstance(e, C.ReferenceFacetVolume):
            f = ctx.facets[_side(side)]
            vols = basix.cell.facet_reference_volumes(cell_type(ctx.cellname))
            return self._const(vols[f])
        if isinstance(e, C.ReferenceNormal):
            f = ctx.facets[_side(side)]
            n = np.asarray(basix.cell.facet_outward_normals(cell_type(ctx.cellname)))[f]
            return n.reshape(-1, 1, 1)
        if isinstance(e, C.CellFacetJacobian):
            f = ctx.facets[_side(side)]
            J = np.asarray(basix.cell.facet_jacobians(cell_type(ctx.cellname)))[f]
            return J.reshape(J.shape + (1, 1))
        if isinstance(e, C.CellVertices):
            s = _side(side)
            ct = cell_type(ctx.cellname)
            verts = np.asarray(basix.geometry(ct), dtype=float)
            tabs = np.asarray(ctx.coord_element.tabulate(0, verts))[0, :, :, 0]  # [vertex][node]
            xv = tabs @ ctx.coords[s]  # [vertex][gdim]
            return xv.reshape(xv.shape + (1, 1))
        if isinstance(e, C.CellEdgeVectors):
            s = _side(side)
            ct = cell_type(ctx.cellname)
            verts = np.asarray(basix.geometry(ct), dtype=float)
            tabs = np.asarray(ctx.coord_element.tabulate(0, verts))[0, :, :, 0]
            xv = tabs @ ctx.coords[s]
            edges = basix.topology(ct)[1]
            ev = np.array([xv[b] - xv[a] for a, b in edges])
            return ev.reshape(ev.shape + (1, 1))
        if isinstance(e, C.FacetEdgeVectors):
            s = _side(side)
            ct = cell_type(ctx.cellname)
            verts = np.asarray(basix.geometry(ct), dtype=float)
            tabs = np.asarray(ctx.coord_element.tabulate(0, verts))[0, :, :, 0]
            xv = tabs @ ctx.coords[s]
            topo = basix.topology(ct)
            conn = basix.cell.sub_entity_connectivity(ct)
            out = []
            for f in range(len(topo[2])):
                fe = conn[2][f][1]
                out.append([xv[topo[1][ed][1]] - xv[topo[1][ed][0]] for ed in fe])
            out = np.array(out)
            return out.reshape(out.shape + (1, 1))
        if isinstance(e, C.CellOrientation):
            if ctx.cell_orientation is None:
                raise OracleUnsupported("CellOrientation")
            return self._const(ctx.cell_orientation)
        if isinstance(e, C.FacetOrientation):
            raise OracleUnsupported("FacetOrientation")
        if isinstance(e, (C.Coefficient, C.Argument)):
            raise OracleUnsupported("function outside ReferenceValue")
        if isinstance(e, C.GeometricQuantity):
            raise OracleUnsupported(f"geometry terminal {type(e).__name__}")
        # ---- operators
        ops = e.ufl_operands
        if isinstance(e, C.Sum):
            return self.ev(ops[0], env, side) + self.ev(ops[1], env, side)
        if isinstance(e, C.Product):
            return self.ev(ops[0], env, side) * self.ev(ops[1], env, side)
        if isinstance(e, C.Division):
            return self.ev(ops[0], env, side) / self.ev(ops[1], env, side)
        if isinstance(e, C.Power):
            a, b = self.ev(ops[0], env, side), self.ev(ops[1], env, side)
            return np.power(a.astype(complex) if (np.iscomplexobj(a) or np.iscomplexobj(b)) else a, b)
        if isinstance(e, C.Abs):
            return np.abs(self.ev(ops[0], env, side))
        if isinstance(e, C.Conj):
            return np.conj(self.ev(ops[0], env, side))
        if isinstance(e, C.Real):
            return np.real(self.ev(ops[0], env, side))
        if isinstance(e, C.Imag):
            return np.imag(self.ev(ops[0], env, side))
        for cls, fn in _MATH.items():
            if isinstance(e, cls):
                return fn(self.ev(ops[0], env, side))
        if isinstance(e, C.Atan2):
            return np.arctan2(np.real(self.ev(ops[0], env, side)), np.real(self.ev(ops[1], env, side)))
        if isinstance(e, C.Erf):
            return _erf(self.ev(ops[0], env, side))
        if isinstance(e, (C.BesselJ, C.BesselY, C.BesselI, C.BesselK)):
            raise OracleUnsupported("bessel")
        if isinstance(e, C.MinValue):
            return np.minimum(np.real(self.ev(ops[0], env, side)), np.real(self.ev(ops[1], env, side)))
        if isinstance(e, C.MaxValue):
            return np.maximum(np.real(self.ev(ops[0], env, side)), np.real(self.ev(ops[1], env, side)))
        if isinstance(e, C.Conditional):
            c = self.ev(ops[0], env, side)
            return np.where(c, self.ev(ops[1], env, side), self.ev(ops[2], env, side))
        if isinstance(e, C.LT):
            return np.real(self.ev(ops[0], env, side)) < np.real(self.ev(ops[1], env, side))
        if isinstance(e, C.GT):
            return np.real(self.ev(ops[0], env, side)) > np.real(self.ev(ops[1], env, side))
        if isinstance(e, C.LE):
            return np.real(self.ev(ops[0], env, side)) <= np.real(self.ev(ops[1], env, side))
        if isinstance(e, C.GE):
            return np.real(self.ev(ops[0], env, side)) >= np.real(self.ev(ops[1], env, side))
        if isinstance(e, C.EQ):
            return self.ev(ops[0], env, side) == self.ev(ops[1], env, side)
        if isinstance(e, C.NE):
            return self.ev(ops[0], env, side) != self.ev(ops[1], env, side)
        if isinstance(e, C.AndCondition):
            return np.logical_and(self.ev(ops[0], env, side), self.ev(ops[1], env, side))
        if isinstance(e, C.OrCondition):
            return np.logical_or(self.ev(ops[0], env, side), self.ev(ops[1], env, side))
        if isinstance(e, C.NotCondition):
            return np.logical_not(self.ev(ops[0], env, side))
        raise OracleUnsupported(f"operator {type(e).__name__}")

    # ------------------------------------------------------------------ geometry
    def _jacobian(self, s, derivs):
        ctx = self.ctx
        nd = 1 + len(derivs)
        t = ctx.coord_tab(s, nd)  # [d][1][node][1]
        J = np.zeros((ctx.gdim, ctx.tdim))
        for j in range(ctx.tdim):
            counts = [0] * ctx.tdim
            counts[j] += 1
            for d in derivs:
                counts[d] += 1
            dphi = t[deriv_index(counts), 0, :, 0]
            J[:, j] = dphi @ ctx.coords[s]
        return J.reshape(J.shape + (1, 1))

    def _x(self, s, derivs):
        ctx = self.ctx
        nd = len(derivs)
        t = ctx.coord_tab(s, nd)
        counts = [0] * ctx.tdim
        for d in derivs:
            counts[d] += 1
        phi = t[deriv_index(counts), 0, :, 0]
        x = phi @ ctx.coords[s]
        return x.reshape(-1, 1, 1)

    # ----------------------------------------------------------- functions
    def _terminal_refvalue(self, f, side, derivs):
        ctx = self.ctx
        if isinstance(f, C.Restricted):
            side = f.side()
            f = f.ufl_operands[0]
        s = _side(side)
        el = f.ufl_function_space().ufl_element()
        nd = len(derivs)
        t = ctx.tab(el, s, nd)
        counts = [0] * ctx.tdim
        for d in derivs:
            counts[d] += 1
        vals = t[deriv_index(counts), 0]  # [dof][refcomp]
        rshape = tuple(el.reference_value_shape)
        ndof = vals.shape[0]
        r = 1 if s == "+" else 1
        block = 0 if (ctx.width == 1 or s == "+") else 1
        if isinstance(f, C.Argument):
            n = ndof * ctx.width
            macro = np.zeros((vals.shape[1], n))
            macro[:, block * ndof:(block + 1) * ndof] = vals.T
            if f.number() == 0:
                out = macro.reshape(rshape + (n, 1))
            else:
                out = macro.reshape(rshape + (1, n))
            return out
        if isinstance(f, C.Coefficient):
            k = ctx.coef_index[f]
            off = ctx.coef_offsets[k] + block * ctx.coef_dims[k]
            wk = np.asarray(ctx.w[off:off + ndof])
            v = wk @ vals  # [refcomp]
            return v.reshape(rshape + (1, 1))
        raise OracleUnsupported(f"ReferenceValue of {type(f).__name__}")


# --------------------------------------------------------------------------------- quadrature
def integral_rule(integral, itype, cellname, facet_cell, arg_elements):
    """(points on the reference entity, weights) the integral's metadata selects."""
    md = dict(integral.metadata() or {})
    # custom quadrature carried by quadrature elements
    custom = None
    for el in ufl.algorithms.extract_elements(integral):
        if getattr(el, "has_custom_quadrature", False):
            p, w = el.custom_quadrature()
            custom = (np.asarray(p, dtype=float), np.asarray(w, dtype=float))
    if custom is not None:
        return custom
    qd = md.get("quadrature_degree", -1)
    if qd is None or (isinstance(qd, (int, np.integer)) and qd < 0):
        qd = int(np.max(md["estimated_polynomial_degree"]))
    scheme = md.get("quadrature_rule", "default")
    if itype == "vertex":
        return np.zeros((1, 0)), np.ones(1)
    ent_cell = cellname if itype == "cell" else facet_cell
    ct = cell_type(ent_cell) if ent_cell != "point" else None
    if ent_cell == "point":
        return np.zeros((1, 0)), np.ones(1)
    if scheme == "vertex":
        pts = np.asarray(basix.cell.geometry(ct), dtype=float)
        vol = basix.cell.volume(ct)
        return pts, np.full(pts.shape[0], vol / pts.shape[0])
    pst = basix.PolysetType.standard
    for e in arg_elements:
        pst = basix.polyset_superset(ct, pst, e.polyset_type)
    p, w = basix.make_quadrature(ct, int(qd), rule=basix.quadrature.string_to_type(scheme), polyset_type=pst)
    return np.asarray(p, dtype=float), np.asarray(w, dtype=float)


# ------------------------------------------------------------------------------------- forms
class FormOracle:
    """Element tensors of the integrals of one form, in the UFCx kernel argument layout."""

    def __init__(self, form, complex_mode=False, diagonal=False):
        self.fd = preprocess_form(form, complex_mode)
        self.complex = complex_mode
        self.diagonal = diagonal
        fd = self.fd
        self.args = sorted(fd.preprocessed_form.arguments(), key=lambda a: a.number())
        self.arg_elements = [a.ufl_function_space().ufl_element() for a in self.args]
        self.arg_dims = [int(e.dim) for e in self.arg_elements]
        self.coefs = list(fd.reduced_coefficients)
        self.coef_dims = [int(c.ufl_function_space().ufl_element().dim) for c in self.coefs]
        self.coef_index = {}
        for k, c in enumerate(self.coefs):
            self.coef_index[fd.function_replace_map[c]] = k
            self.coef_index[c] = k
        self.consts = list(fd.original_form.constants())
        self.const_offsets = {}
        off = 0
        for c in self.consts:
            self.const_offsets[c] = off
            off += int(np.prod(c.ufl_shape)) if c.ufl_shape else 1
        self.n_const = off

    def integral_data(self):
        return self.fd.integral_data

    def tabulate(self, k, w, c, coordinate_dofs, entities=(0,), cell_orientation=1.0):
        """Element tensor (flat, macro layout) of integral-data group k.

        coordinate_dofs: flat [restriction][node][3]; w: flat [coefficient][restriction][dof].
        For interior facets both sides use the SAME reference-facet points (permutation code 0).
        """
        if self.complex:  # complex mode computes in complex arithmetic whatever the data
            w, c = np.asarray(w, dtype=complex), np.asarray(c, dtype=complex)
        itg = self.fd.integral_data[k]
        itype = itg.integral_type
        width = 2 if itype == "interior_facet" else 1
        cellname = itg.domain.ufl_cell().cellname
        tdim = len(basix.topology(cell_type(cellname))) - 1
        cel = itg.domain.ufl_coordinate_element()
        gdim = int(cel.reference_value_shape[0]) if cel.reference_value_shape else 1
        scal = cel.basix_element
        nodes = int(scal.dim)
        xs = np.asarray(coordinate_dofs, dtype=float).reshape(width, nodes, 3)[:, :, :gdim]
        coords = {"+": xs[0], "-": xs[width - 1]}
        coef_offsets = []
        off = 0
        for d in self.coef_dims:
            coef_offsets.append(off)
            off += width * d
        dims = [width * d for d in self.arg_dims]
        shape = tuple(dims) if dims else ()
        dtype = complex if self.complex else float
        A = np.zeros(shape if shape else (1,), dtype=dtype)
        for integral in itg.integrals:
            if itype == "cell":
                fcell = None
            elif itype in ("exterior_facet", "interior_facet"):
                fcell = facet_cellname(cellname, entities[0])
            elif itype == "vertex":
                fcell = "point"
            else:
                raise OracleUnsupported(itype)
            pts, wts = integral_rule(integral, itype, cellname, fcell, self.arg_elements)
            integrand = integral.integrand()
            for q in range(len(wts)):
                X = {}
                facets = {}
                if itype == "cell":
                    X["+"] = pts[q:q + 1]
                elif itype == "vertex":
                    X["+"] = map_entity_points(cellname, 0, entities[0], None)
                    facets["+"] = entities[0]
                else:
                    X["+"] = map_entity_points(cellname, tdim - 1, entities[0], pts[q:q + 1])
                    facets["+"] = entities[0]
                    if width == 2:
                        X["-"] = map_entity_points(cellname, tdim - 1, entities[1], pts[q:q + 1])
                        facets["-"] = entities[1]
                if "-" not in X:
                    X["-"] = X["+"]
                    facets.setdefault("-", facets.get("+"))
                ctx = Context(cellname, gdim, scal, coords, X, self.arg_dims, self.coef_index, coef_offsets,
                              self.coef_dims, w, self.const_offsets, c, wts[q], width, facets,
                              cell_orientation=cell_orientation)
                v = Interp(ctx).ev(integrand, {}, None)
                v = np.asarray(v)
                if v.ndim != 2:
                    raise OracleUnsupported(f"non-scalar integrand value shape {v.shape}")
                if len(dims) == 0:
                    A[0] += v[0, 0]
                elif len(dims) == 1:
                    A += np.broadcast_to(v, (dims[0], 1))[:, 0]
                else:
                    A += np.broadcast_to(v, (dims[0], dims[1]))
        if self.diagonal and len(dims) == 2:
            return np.diagonal(A).copy()
        return A.reshape(-1)


# ------------------------------------------------------------------------------- expressions
def permuted_facet_points(ftype, code, pts):
    """The documented meaning of a quadrature_permutation code on a facet of type `ftype`:
    code // 2 rotations, then code % 2 reflections of the reference facet points."""
    pts = np.array(pts, dtype=float)
    rot, ref = code // 2, code % 2
    if ftype == "point":
        return pts
    if ftype == "interval":
        return 1 - pts if ref else pts
    for _ in range(rot):
        if ftype == "triangle":
            pts = np.stack([pts[:, 1], 1 - pts[:, 0] - pts[:, 1]], axis=1)
        else:
            pts = np.stack([pts[:, 1], 1 - pts[:, 0]], axis=1)
    if ref:
        pts = np.stack([pts[:, 1], pts[:, 0]], axis=1)
    return pts


class ExpressionOracle:
    def __init__(self, expr, points, complex_mode=False):
        self.orig = expr
        self.points = np.asarray(points, dtype=float)
        self.e = preprocess_expression(expr, complex_mode)
        self.complex = complex_mode
        self.args = sorted(ufl.algorithms.extract_arguments(expr), key=lambda a: a.number())
        self.arg_elements = [a.ufl_function_space().ufl_element() for a in self.args]
        self.arg_dims = [int(e.dim) for e in self.arg_elements]
        # w holds the coefficients that survive UFL's differentiation, in count order (see harness/kernels.py)
        self.coefs = list(ufl.algorithms.extract_coefficients(apply_derivatives(apply_algebra_lowering(expr))))
        self.coef_dims = [int(c.ufl_function_space().ufl_element().dim) for c in self.coefs]
        self.coef_index = {c: k for k, c in enumerate(self.coefs)}
        self.consts = list(ufl.algorithms.analysis.extract_constants(expr))
        self.const_offsets = {}
        off = 0
        for c in self.consts:
            self.const_offsets[c] = off
            off += int(np.prod(c.ufl_shape)) if c.ufl_shape else 1
        self.domain = ufl.domain.extract_unique_domain(expr)

    def tabulate(self, w, c, coordinate_dofs, entity=0, perm=0):
        if self.complex:  # complex mode computes in complex arithmetic whatever the data (sqrt/pow of negative reals)
            w, c = np.asarray(w, dtype=complex), np.asarray(c, dtype=complex)
        dom = self.domain
        cellname = dom.ufl_cell().cellname
        tdim = len(basix.topology(cell_type(cellname))) - 1
        points = self.points
        if perm and points.shape[1] == tdim - 1 and tdim >= 2:
            sub = basix.cell.subentity_types(cell_type(cellname))[tdim - 1][entity]
            points = permuted_facet_points(sub.name, int(perm), points)
        cel = dom.ufl_coordinate_element()
        gdim = int(cel.reference_value_shape[0])
        scal = cel.basix_element
        nodes = int(scal.dim)
        xs = np.asarray(coordinate_dofs, dtype=float).reshape(1, nodes, 3)[:, :, :gdim]
        coords = {"+": xs[0], "-": xs[0]}
        coef_offsets = []
        off = 0
        for d in self.coef_dims:
            coef_offsets.append(off)
            off += d
        pdim = points.shape[1]
        vshape = tuple(self.orig.ufl_shape)
        nv = int(np.prod(vshape)) if vshape else 1
        nd = self.arg_dims[0] if self.arg_dims else 1
        dtype = complex if self.complex else float
        A = np.zeros((points.shape[0], nv, nd), dtype=dtype)
        for q in range(points.shape[0]):
            if pdim == tdim:
                X = points[q:q + 1]
                facets = {}
            elif pdim == tdim - 1:
                X = map_entity_points(cellname, tdim - 1, entity, points[q:q + 1])
                facets = {"+": entity, "-": entity}
            else:
                X = map_entity_points(cellname, 0, entity, None)
                facets = {"+": entity, "-": entity}
            ctx = Context(cellname, gdim, scal, coords, {"+": X, "-": X}, self.arg_dims, self.coef_index,
                          coef_offsets, self.coef_dims, w, self.const_offsets, c, 1.0, 1, facets)
            v = np.asarray(Interp(ctx).ev(self.e, {}, None))
            if v.shape[-1] != 1:  # the single argument of an expression may be numbered 0 or 1
                v = np.swapaxes(v, -1, -2)
            v = np.broadcast_to(v, vshape + (nd, 1))
            A[q] = np.asarray(v).reshape(nv, nd)
        return A.reshape(-1)
