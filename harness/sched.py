"""Deterministic scheduler for `ffcx.codegeneration.jit` (properties C14 / C15).

K real `jit.compile_forms` (or `jit.compile_expressions`: `api="expressions"`) calls run as threads of this process on one cache directory.  Every
operation at which jit.py touches the cache directory or the process-global state is wrapped so
that the calling thread blocks until the scheduler grants it ("gate").  Exactly one thread runs at
any time, so a schedule `[(pid, choice), ...]` determines the execution completely.  The gates are
the steps of the Lean model `FfcxModel/Jit/Cache.lean` (same op / result names):

    lock     jit.open(<module>.c, "x")                     ok | exists
    poll     jit.os.path.exists(<module>.c.cached)         true | false      (+ patched time.sleep)
    find     FileFinder.find_spec                          found | notfound
    load     importlib.util.module_from_spec (the dlopen)  complete | partial | absent
    gen      ffcx.compiler.compile_ufl_objects             ok | raise
    swap     jit.root_logger.handlers = [capture]   (first assignment; redirect_stdout enters silently)
    src obj link1 link2    the four phases of `cffi.FFI.compile` ok | raise
    unredir  redirect_stdout.__exit__ on the normal path
    tmpcreate   jit.open(<module>.c.cached.tmp<pid>, "x")  ok | exists | raise
    tmpwrite    fd.write(s) and the close at the end of the `with` block, of the file object
                returned by that open                      ok | raise
    markcheck   ready_name.exists()  (jit.Path is replaced by a subclass)    true | false
    publish     jit.os.replace(tmp_name, ready_name)       ok | raise
    tmpremove   jit.os.remove(tmp_name) in the inner `finally`               ok
                (the `tmp_name.exists()` before it is not a step: the file is private to the request)
    restore  jit.root_logger.handlers = old_handlers (second assignment)
    release  jit.os.replace(.c -> .c.failed)               ok | enoent

choice: "none" | "fail" (the gated op raises, meaningful for gen/src/obj/link1/link2/tmpcreate/
tmpwrite/publish; at tmpwrite either `fd.write` raises before anything is written or - with
`Patches.markwrite_fail_at = "close"` - the write goes through and `fd.close` raises) | "kill" (the
thread is abandoned at its gate: it never runs again, files stay as they are) | "again" (a thread
whose request has returned or raised issues a new `compile_forms` call — the same "process" asks
again; for a request in progress it is an ordinary step).
On a failure inside the `try` of `_compile_objects` the second assignment to
`root_logger.handlers` (op `restore`) happens in the `finally` block, before `release`.

The C compiler is run for real exactly once (`Reference`); the gated `FFI.compile` replays the
reference files phase by phase (source via tmp+rename like cffi, object file, `.so` unlinked and
half written, `.so` completed).  A `.so` is only ever dlopen'ed if it is byte-identical to the
reference; an attempt to import anything else is recorded as load=partial and answered with
ImportError (a real dlopen of a truncated ELF file may kill the process).

Nothing here sleeps: `jit.time.sleep` is replaced by a counter.
All monkeypatches are installed by `Patches.__enter__` and removed by `__exit__`.
"""
from __future__ import annotations

import contextlib
import importlib
import importlib.machinery
import importlib.util
import io
import logging
import os
import pathlib
import re
import shutil
import sys
import threading
import time as _time
import types
from pathlib import Path

import cffi
import numpy as np

import ffcx
import ffcx.codegeneration.jit as jit
import ffcx.compiler

BUILDER_OPS = ["lock", "gen", "swap", "src", "obj", "link1", "link2", "unredir", "tmpcreate", "tmpwrite", "markcheck",
               "publish", "restore", "find", "load"]
FAILABLE = {"gen", "src", "obj", "link1", "link2", "tmpcreate", "tmpwrite", "publish"}
TMP_RE = re.compile(r"\.c\.cached\.tmp\d+$")
COMPILE_OPS = {"src", "obj", "link1", "link2"}
STEP_TIMEOUT_S = 120.0


class Killed(BaseException):
    """Raised inside an abandoned worker at teardown so that its thread can end."""


class InjectedCodegenError(RuntimeError):
    pass


class InjectedCompileError(cffi.VerificationError):
    pass


class InjectedMarkerOpenError(OSError):
    """open(tmp_name, "x") fails for a reason other than EEXIST (nothing is created)."""


class InjectedMarkerWriteError(OSError):
    """fd.write(s) / fd.close() on the marker under construction fails (ENOSPC, EIO, ...)."""


class InjectedPublishError(OSError):
    """os.replace(tmp_name, ready_name) fails."""


class SchedulerError(RuntimeError):
    """Infrastructure failure of the scheduler itself (never a property violation)."""


class CannotGate(SchedulerError):
    """jit.py no longer has the module globals the gates are installed into: the tie between the
    model and the code is broken (reported as a broken correspondence, there is no failing input)."""


# --------------------------------------------------------------------------- the form under test


def tiny_form():
    """P1 mass matrix on an interval: the cheapest form with a checkable value."""
    import basix.ufl
    import ufl

    e = basix.ufl.element("Lagrange", "interval", 1)
    dom = ufl.Mesh(basix.ufl.element("Lagrange", "interval", 1, shape=(1,)))
    V = ufl.FunctionSpace(dom, e)
    u, v = ufl.TrialFunction(V), ufl.TestFunction(V)
    return u * v * ufl.dx


def tiny_expected():
    """Element matrix on the segment [0, 2]: h/6 [[2,1],[1,2]]."""
    return np.array([[2.0 / 3, 1.0 / 3], [1.0 / 3, 2.0 / 3]])


def call_tiny_kernel(form_obj, mod):
    """Call the cell kernel of a compiled `tiny_form` on the segment [0,2]."""
    ffi = mod.ffi
    A = np.zeros((2, 2))
    x = np.array([0.0, 0, 0, 2.0, 0, 0])
    w = np.zeros(1)
    c = np.zeros(1)
    k = form_obj.form_integrals[0]
    k.tabulate_tensor_float64(
        ffi.cast("double*", A.ctypes.data), ffi.cast("double*", w.ctypes.data),
        ffi.cast("double*", c.ctypes.data), ffi.cast("double*", x.ctypes.data),
        ffi.NULL, ffi.NULL, ffi.NULL,
    )
    return A


def kernel_ok(form_obj, mod):
    try:
        A = call_tiny_kernel(form_obj, mod)
    except Exception as e:  # noqa: BLE001
        return False, repr(e)
    ok = bool(np.allclose(A, tiny_expected(), rtol=1e-13, atol=1e-15))
    return ok, A.tolist()


def tiny_expression():
    """A P1 coefficient on an interval evaluated at the reference points 1/4 and 3/4."""
    import basix.ufl
    import ufl

    e = basix.ufl.element("Lagrange", "interval", 1)
    dom = ufl.Mesh(basix.ufl.element("Lagrange", "interval", 1, shape=(1,)))
    V = ufl.FunctionSpace(dom, e)
    u = ufl.Coefficient(V)
    return (u, np.array([[0.25], [0.75]]))


def expression_ok(expr_obj, mod):
    """Call a compiled `tiny_expression` with dofs (1, 3): values 1.5 and 2.5."""
    try:
        ffi = mod.ffi
        A = np.zeros(2)
        x = np.array([0.0, 0, 0, 2.0, 0, 0])
        w = np.array([1.0, 3.0])
        c = np.zeros(1)
        expr_obj.tabulate_tensor_float64(
            ffi.cast("double*", A.ctypes.data), ffi.cast("double*", w.ctypes.data),
            ffi.cast("double*", c.ctypes.data), ffi.cast("double*", x.ctypes.data),
            ffi.NULL, ffi.NULL, ffi.NULL,
        )
    except Exception as e:  # noqa: BLE001
        return False, repr(e)
    return bool(np.allclose(A, [1.5, 2.5], rtol=1e-13, atol=1e-15)), A.tolist()


API = {
    # api -> (name of the jit.py entry point, factory of its first argument's element, result check)
    "forms": ("compile_forms", tiny_form, kernel_ok),
    "expressions": ("compile_expressions", tiny_expression, expression_ok),
}


class Reference:
    """One real, unpatched build of the form (or expression): the files every gated compile replays."""

    def __init__(self, root: Path, form_factory=None, options=None, api="forms"):
        self.api = api
        self.entry, default_factory, self.check = API[api]
        form_factory = form_factory or default_factory
        self.form_factory = form_factory
        self.options = dict(options or {})
        self.dir = Path(root) / ("reference" if api == "forms" else "reference_" + api)
        self.dir.mkdir(parents=True, exist_ok=True)
        stages = []
        # observe the real cffi pipeline: source first, then object and shared object
        import cffi.recompiler as rc

        real_make, real_compile = rc.make_c_source, rc.ffiplatform.compile

        def listing():
            return sorted(self._kind(n) for n in os.listdir(self.dir))

        def make(*a, **k):
            stages.append(("before-src", listing()))
            r = real_make(*a, **k)
            stages.append(("after-src", listing()))
            return r

        def comp(*a, **k):
            r = real_compile(*a, **k)
            stages.append(("after-compile", listing()))
            return r

        t0 = _time.time()
        rc.make_c_source, rc.ffiplatform.compile = make, comp
        try:
            (f,), mod, (decl, impl) = getattr(jit, self.entry)([form_factory()], options=self.options, cache_dir=self.dir)
        finally:
            rc.make_c_source, rc.ffiplatform.compile = real_make, real_compile
        self.build_s = _time.time() - t0
        stages.append(("end", listing()))
        self.real_stages = stages
        names = sorted(os.listdir(self.dir))
        cs = [n for n in names if n.endswith(".c")]
        assert len(cs) == 1, names
        self.module_name = cs[0][:-2]
        so = [n for n in names if n.startswith(self.module_name + ".") and n.endswith((".so", ".pyd"))]
        assert len(so) == 1, names
        self.so_name = so[0]
        self.c_name = self.module_name + ".c"
        self.o_name = self.module_name + ".o"
        self.marker_name = self.c_name + ".cached"
        self.failed_name = self.c_name + ".failed"
        self.names = names
        self.c_bytes = (self.dir / self.c_name).read_bytes()
        self.o_bytes = (self.dir / self.o_name).read_bytes() if (self.dir / self.o_name).exists() else b""
        self.so_bytes = (self.dir / self.so_name).read_bytes()
        self.kernel_ok = self.check(f, mod)
        self.mod = mod

    def _kind(self, n):
        if n.endswith(".c.cached"):
            return "marker"
        if n.endswith(".c.failed"):
            return "failed"
        if n.endswith(".c"):
            return "c:" + ("empty" if (self.dir / n).stat().st_size == 0 else "source")
        if n.endswith(".o"):
            return "obj"
        if n.endswith((".so", ".pyd")):
            return "so"
        return "other:" + n

    # abstraction of a cache directory to the model's FS record
    def so_state(self, d: Path):
        p = Path(d) / self.so_name
        try:
            b = p.read_bytes()
        except FileNotFoundError:
            return "absent"
        return "complete" if b == self.so_bytes else "partial"

    def abstract_fs(self, d: Path):
        d = Path(d)
        names = set(os.listdir(d)) if d.exists() else set()
        tmps = {n for n in names if n.startswith(self.marker_name) and TMP_RE.search(n)}
        known = {self.c_name, self.o_name, self.so_name, self.marker_name, self.failed_name} | tmps
        c = d / self.c_name
        lock = "absent" if self.c_name not in names else ("empty" if c.stat().st_size == 0 else "source")
        fs = {
            "lock": lock,
            "so": self.so_state(d),
            "obj": self.o_name in names,
            "marker": self.marker_name in names,
            "failed": self.failed_name in names,
            "tmp": bool(tmps),
        }
        return fs, sorted(names - known)


# ------------------------------------------------------------------------------- worker bookkeeping


class _Proc:
    def __init__(self, pid):
        self.pid = pid
        self.thread = None
        self.pending = None  # op the thread is blocked at
        self.at_gate = False
        self.finished = False
        self.dead = False  # killed by the schedule
        self.grant = None  # choice handed over by the scheduler
        self.abort = False
        self.polls = 0  # unsuccessful polls
        self.sleeps = 0
        self.handler_sets = 0
        self.outcome = None  # ("done", built, objs, mod) | ("raised", exc)
        self.loaded = []  # so states this request tried to import
        self.compiles = 0
        self.again = False  # the scheduler asked for a further request
        self.history = []  # outcomes of earlier requests of this "process"
        self.tok = 0  # link generation of the `.so` this request imported last
        self.loaded_from = []  # (file name, link generation) of every import
        self.fs_at_finish = None  # abstract directory contents at the moment the request returned/raised
        self.fs_history = []  # the same for the earlier requests of this "process"


class Scenario:
    """One cache directory, `n` requests, one forced schedule."""

    def __init__(self, patches: "Patches", n: int, timeout: int, cache_dir: Path, extra_kwargs=None):
        self.patches = patches
        self.ref = patches.ref
        self.n = n
        self.timeout = timeout
        self.cache_dir = Path(cache_dir)
        self.cache_dir.mkdir(parents=True, exist_ok=True)
        self.cv = threading.Condition()
        self.procs = [_Proc(i) for i in range(n)]
        self.by_thread = {}
        self.trace = []  # (pid, op, res, handlers, stdout)
        self._last = None
        self.extra_kwargs = dict(extra_kwargs or {})
        self.orig_handlers = list(logging.getLogger().handlers)
        self.orig_stdout = sys.stdout
        self.counters = {"lock_ok": 0, "release_ok": 0, "compile": 0}
        self.so_gen = 0  # how often the (replayed) linker has re-created the `.so`
        self.finish_log = []  # (pid, "done"|"raised", exception type name, abstract directory) in order of completion
        self.started = False

    # -- worker side ------------------------------------------------------------------------
    def me(self):
        return self.by_thread.get(threading.get_ident())

    def _worker(self, st: _Proc):
        self.by_thread[threading.get_ident()] = st
        while True:
            try:
                objs, mod, code = getattr(jit, self.ref.entry)(
                    [self.ref.form_factory()], options=dict(self.ref.options), cache_dir=self.cache_dir,
                    timeout=self.timeout, **self.extra_kwargs,
                )
                st.outcome = ("done", code[0] is not None, objs, mod)
            except Killed:
                st.outcome = ("dead",)
            except BaseException as e:  # noqa: BLE001
                st.outcome = ("raised", e)
            if st.outcome[0] != "dead":
                # exactly one thread runs at any time: this is the directory as the request leaves it
                try:
                    st.fs_at_finish = self.ref.abstract_fs(self.cache_dir)
                except Exception as e:  # noqa: BLE001
                    st.fs_at_finish = ({"error": repr(e)}, [])
                self.finish_log.append((st.pid, st.outcome[0], type(st.outcome[1]).__name__ if st.outcome[0] == "raised" else None,
                                        st.fs_at_finish[0]))
            with self.cv:
                st.finished = True
                st.at_gate = False
                self.cv.notify_all()
                # the "process" stays alive: it may be asked for a further request
                while not (st.again or st.abort):
                    self.cv.wait()
                if st.abort or st.outcome[0] == "dead":
                    return
                st.again = False
                st.history.append(st.outcome)
                st.fs_history.append(st.fs_at_finish)
                st.fs_at_finish = None
                st.outcome = None
                st.finished = False
                st.polls = st.sleeps = st.handler_sets = st.compiles = 0
                st.loaded = []

    def gate(self, op, action, classify, on_fail=None):
        """Block until granted, then perform `action` (or the injected fault; `on_fail`, if given,
        replaces the default "raise before doing anything")."""
        st = self.me()
        with self.cv:
            if st.abort:
                raise Killed()
            st.pending = op
            st.at_gate = True
            self.cv.notify_all()
            while st.grant is None and not st.abort:
                self.cv.wait()
            if st.abort:
                raise Killed()
            choice = st.grant
            st.grant = None
            st.at_gate = False
            st.pending = None
        if choice == "fail" and op in FAILABLE:
            self._last = (st.pid, op, "raise")
            if on_fail is not None:
                return on_fail()
            if op == "gen":
                raise InjectedCodegenError("injected code generation failure")
            if op == "tmpcreate":
                raise InjectedMarkerOpenError(13, "injected failure of open(tmp_name, 'x')")
            if op == "tmpwrite":
                raise InjectedMarkerWriteError(28, "injected failure of fd.write on the ready marker")
            if op == "publish":
                raise InjectedPublishError(5, "injected failure of os.replace(tmp_name, ready_name)")
            raise InjectedCompileError(f"injected C compiler failure at {op}")
        try:
            v = action()
        except Killed:
            raise
        except BaseException as e:  # noqa: BLE001
            self._last = (st.pid, op, classify(None, e))
            raise
        self._last = (st.pid, op, classify(v, None))
        return v

    # -- scheduler side ---------------------------------------------------------------------
    def start(self):
        """Start all requests; each runs up to its first gate (`lock`)."""
        self.started = True
        for st in self.procs:
            st.thread = threading.Thread(target=self._worker, args=(st,), daemon=True, name=f"jitreq{st.pid}")
            st.thread.start()
            self._wait(st)  # one at a time: deterministic (normally blocked at the `lock` gate now)

    def _wait(self, st):
        with self.cv:
            t0 = _time.time()
            while not (st.at_gate or st.finished):
                self.cv.wait(1.0)
                if _time.time() - t0 > STEP_TIMEOUT_S:
                    raise SchedulerError(f"request {st.pid} neither blocked nor finished")

    def globals_now(self):
        root = logging.getLogger()
        h = "user" if root.handlers == self.orig_handlers else "capture"
        s = "user" if sys.stdout is self.orig_stdout else "capture"
        return h, s

    def step(self, pid, choice="none"):
        """Grant request `pid` one step. Returns the trace entry."""
        st = self.procs[pid]
        if choice == "again" and st.finished and not st.dead:
            with self.cv:
                st.again = True
                self.cv.notify_all()
                t0 = _time.time()
                while st.again:  # the worker has not yet reset itself
                    self.cv.wait(1.0)
                    if _time.time() - t0 > STEP_TIMEOUT_S:
                        raise SchedulerError(f"request {pid} did not restart")
            self._wait(st)  # runs up to its first gate
            e = (pid, "again", "-") + self.globals_now()
            self.trace.append(e)
            return e
        if choice == "again":
            choice = "none"
        if st.finished or st.dead:
            e = (pid, "none", "-") + self.globals_now()
            self.trace.append(e)
            return e
        if choice == "kill":
            st.dead = True
            e = (pid, "kill", "-") + self.globals_now()
            self.trace.append(e)
            return e
        self._last = None
        with self.cv:
            st.grant = choice
            st.at_gate = False
            self.cv.notify_all()
        self._wait(st)
        if self._last is None or self._last[0] != pid:
            # the request ran on without passing a gate (the code no longer has the modelled shape):
            # reported as a trace difference by `compare`, never as an infrastructure error
            self._last = (pid, "silent", "-")
        e = self._last + self.globals_now()
        self.trace.append(e)
        if e[1] == "lock" and e[2] == "ok":
            self.counters["lock_ok"] += 1
        if e[1] == "release" and e[2] == "ok":
            self.counters["release_ok"] += 1
        if e[1] == "src":
            self.counters["compile"] += 1
        return e

    def run(self, schedule):
        if not self.started:
            self.start()
        for pid, choice in schedule:
            self.step(pid, choice)
        return self.trace

    def drain(self, bound=None):
        """Let every unfinished, un-killed request run to its end (one after the other)."""
        bound = bound if bound is not None else self.timeout + 20
        for st in self.procs:
            k = 0
            while not (st.finished or st.dead) and k < bound:
                self.step(st.pid, "none")
                k += 1

    def live(self):
        return [st.pid for st in self.procs if not (st.finished or st.dead)]

    def status(self, pid):
        """(kind, detail, nextop, polls) comparable with the model's final control state."""
        st = self.procs[pid]
        if st.dead:
            return ("dead", None, "none", st.polls)
        if not st.finished:
            return ("running", None, st.pending, st.polls)
        o = st.outcome
        if o[0] == "done":
            return ("done", (o[1], st.loaded[-1] if st.loaded else None, st.tok), "none", st.polls)
        if o[0] == "raised":
            return ("raised", type(o[1]).__name__, "none", st.polls)
        return ("dead", None, "none", st.polls)

    def fs(self):
        return self.ref.abstract_fs(self.cache_dir)

    def close(self):
        """Abandon every unfinished request, restore process-global state, remove the directory."""
        with self.cv:
            for st in self.procs:
                st.abort = True
            self.cv.notify_all()
        for st in self.procs:
            if st.thread is not None:
                st.thread.join(30)
        alive = [st.pid for st in self.procs if st.thread is not None and st.thread.is_alive()]
        # process-global state back to what it was when the scenario started
        sys.stdout = self.orig_stdout
        logging.getLogger().handlers = list(self.orig_handlers)
        shutil.rmtree(self.cache_dir, ignore_errors=True)
        if alive:
            raise SchedulerError(f"worker threads still alive: {alive}")


# --------------------------------------------------------------------------------------- patches


class _MarkerFile:
    """The file object `open(tmp_name, "x")` returned (the marker under construction): the first `write`
    is the gate `tmpwrite`; the following `close` (end of the `with` block) belongs to the same step."""

    def __init__(self, patches, f):
        self._p, self._f = patches, f
        self._gated = False
        self._fail_close = False

    def __getattr__(self, n):
        return getattr(self._f, n)

    def _quiet_close(self):
        try:
            self._f.close()
        except Exception:  # noqa: BLE001
            pass

    def write(self, data):
        sc = self._p._sc()
        if sc is None or self._gated:
            return self._f.write(data)
        self._gated = True

        def on_fail():
            if self._p.markwrite_fail_at == "close":
                self._fail_close = True
                return self._f.write(data)
            self._quiet_close()  # (the real code would leak the descriptor until collection)
            raise InjectedMarkerWriteError(28, "No space left on device (injected at fd.write of the ready marker)")

        try:
            return sc.gate("tmpwrite", lambda: self._f.write(data), lambda v, e: "ok" if e is None else "error:" + type(e).__name__,
                           on_fail=on_fail)
        except Killed:
            self._quiet_close()
            raise

    def close(self):
        r = self._f.close()
        if self._fail_close:
            self._fail_close = False
            raise InjectedMarkerWriteError(5, "Input/output error (injected at fd.close of the ready marker)")
        return r

    def __enter__(self):
        return self

    def __exit__(self, *exc):
        self.close()
        return False


class Patches:
    """Installs the gates into jit.py's module globals; restores everything on exit."""

    # module globals of jit.py the gates are installed into
    REQUIRED = ("os", "time", "importlib", "cffi", "root_logger", "redirect_stdout", "Path")

    def __init__(self, ref: Reference):
        self.ref = ref
        self.markwrite_fail_at = "write"  # or "close": which of fd.write / fd.close raises at choice `fail`
        self.current: Scenario | None = None
        self._saved = None
        # number of byte-identical `.so` copies that are really dlopen'ed; beyond it the (already
        # loaded, byte-identical) reference module is handed out instead, to bound address space
        self.real_load_budget = 2500
        self.real_loads = 0

    def scenario(self, n, timeout, cache_dir, **kw) -> Scenario:
        sc = Scenario(self, n, timeout, cache_dir, **kw)
        self.current = sc
        return sc

    def _sc(self):
        sc = self.current
        if sc is not None and sc.me() is not None:
            return sc
        return None

    # ---- wrapped operations
    def _open(self, file, mode="r", *a, **k):
        sc = self._sc()
        name = str(file)
        if sc is not None and mode == "x" and (name.endswith(".c") or TMP_RE.search(name)):
            op = "lock" if name.endswith(".c") else "tmpcreate"

            def cls(v, e):
                if e is None:
                    return "ok"
                return "exists" if isinstance(e, FileExistsError) else "error:" + type(e).__name__

            f = sc.gate(op, lambda: open(file, mode, *a, **k), cls)
            return _MarkerFile(self, f) if op == "tmpcreate" else f
        return open(file, mode, *a, **k)

    def _exists(self, p):
        sc = self._sc()
        if sc is not None and str(p).endswith(".c.cached"):
            st = sc.me()

            def act():
                r = os.path.exists(p)
                if not r:
                    st.polls += 1
                return r

            return sc.gate("poll", act, lambda v, e: ("true" if v else "false") if e is None else "error")
        return os.path.exists(p)

    def _replace(self, a, b):
        sc = self._sc()
        if sc is not None and str(b).endswith(".c.cached"):
            return sc.gate("publish", lambda: os.replace(a, b), lambda v, e: "ok" if e is None else "error:" + type(e).__name__)
        if sc is not None:
            def cls(v, e):
                if e is None:
                    return "ok"
                return "enoent" if isinstance(e, FileNotFoundError) else "error:" + type(e).__name__

            return sc.gate("release", lambda: os.replace(a, b), cls)
        return os.replace(a, b)

    def _remove(self, p):
        sc = self._sc()
        if sc is not None and TMP_RE.search(str(p)):
            return sc.gate("tmpremove", lambda: os.remove(p), lambda v, e: "ok" if e is None else "error:" + type(e).__name__)
        return os.remove(p)

    def _sleep(self, secs):
        sc = self._sc()
        if sc is not None:
            sc.me().sleeps += 1
            return None
        return None  # never really sleep while patched

    def _compile_ufl_objects(self, *a, **k):
        sc = self._sc()
        if sc is not None:
            return sc.gate("gen", lambda: self._saved["compile_ufl_objects"](*a, **k),
                           lambda v, e: "ok" if e is None else "raise")
        return self._saved["compile_ufl_objects"](*a, **k)

    def _module_from_spec(self, spec):
        sc = self._sc()
        if sc is None:
            return importlib.util.module_from_spec(spec)
        st = sc.me()
        ref = self.ref

        def act():
            state = "absent"
            try:
                b = Path(spec.origin).read_bytes()
                state = "complete" if b == ref.so_bytes else "partial"
            except FileNotFoundError:
                pass
            st.loaded.append(state)
            st.tok = sc.so_gen
            st.loaded_from.append((Path(spec.origin).name, sc.so_gen))
            if state != "complete":
                raise ImportError(f"{spec.origin}: extension module is {state} (import simulated by harness/sched.py)")
            if self.real_loads >= self.real_load_budget:
                return ref.mod
            self.real_loads += 1
            return importlib.util.module_from_spec(spec)

        return sc.gate("load", act, lambda v, e: st.loaded[-1])

    def install(self):
        missing = [n for n in self.REQUIRED if not hasattr(jit, n)]
        if not hasattr(ffcx.compiler, "compile_ufl_objects"):
            missing.append("ffcx.compiler.compile_ufl_objects")
        for n in {"forms": "compile_forms", "expressions": "compile_expressions"}.values():
            if not hasattr(jit, n):
                missing.append(n)
        if missing:
            raise CannotGate("ffcx/codegeneration/jit.py has no module global(s) " + ", ".join(missing)
                             + " (the gates of harness/sched.py are installed by replacing them)")
        patches = self
        real_root = logging.getLogger()

        class GatedPath(type(pathlib.Path())):
            """jit.Path: `ready_name.exists()` is the gate `markcheck`."""

            def exists(self, *a, **k):
                sc = patches._sc()
                if sc is not None and self.name.endswith(".c.cached"):
                    return sc.gate("markcheck", lambda: pathlib.Path.exists(self, *a, **k),
                                   lambda v, e: ("true" if v else "false") if e is None else "error")
                return pathlib.Path.exists(self, *a, **k)

        class OsPath:
            def __getattr__(self, n):
                return getattr(os.path, n)

            def exists(self, p):
                return patches._exists(p)

        class OsShim:
            path = OsPath()

            def __getattr__(self, n):
                return getattr(os, n)

            def replace(self, a, b):
                return patches._replace(a, b)

            def remove(self, p):
                return patches._remove(p)

            unlink = remove

        class TimeShim:
            def __getattr__(self, n):
                return getattr(_time, n)

            def sleep(self, s):
                return patches._sleep(s)

        class GatedFinder(importlib.machinery.FileFinder):
            def find_spec(self, fullname, target=None):
                sc = patches._sc()
                if sc is None:
                    return super().find_spec(fullname, target)
                return sc.gate("find", lambda: importlib.machinery.FileFinder.find_spec(self, fullname, target),
                               lambda v, e: ("found" if v is not None else "notfound") if e is None else "error")

        machinery = types.SimpleNamespace(
            FileFinder=GatedFinder,
            ExtensionFileLoader=importlib.machinery.ExtensionFileLoader,
            EXTENSION_SUFFIXES=importlib.machinery.EXTENSION_SUFFIXES,
        )
        util = types.SimpleNamespace(module_from_spec=patches._module_from_spec)
        importlib_shim = types.SimpleNamespace(machinery=machinery, util=util)

        class RootProxy:
            def __getattr__(self, n):
                return getattr(real_root, n)

            @property
            def handlers(self):
                return real_root.handlers

            @handlers.setter
            def handlers(self, v):
                sc = patches._sc()
                if sc is None:
                    real_root.handlers = v
                    return
                st = sc.me()
                st.handler_sets += 1
                op = "swap" if st.handler_sets == 1 else "restore"
                sc.gate(op, lambda: setattr(real_root, "handlers", v), lambda v_, e: "-" if e is None else "error")

        class Redirect(contextlib.redirect_stdout):
            def __exit__(self, et, ev, tb):
                sc = patches._sc()
                if sc is None or et is not None:
                    return super().__exit__(et, ev, tb)
                try:
                    return sc.gate("unredir", lambda: contextlib.redirect_stdout.__exit__(self, et, ev, tb),
                                   lambda v, e: "-" if e is None else "error")
                except Killed:
                    contextlib.redirect_stdout.__exit__(self, et, ev, tb)
                    raise

        ref = self.ref

        class GatedFFI(cffi.FFI):
            def compile(self, tmpdir=".", verbose=0, target=None, debug=None):  # noqa: A003
                sc = patches._sc()
                if sc is None:
                    return super().compile(tmpdir=tmpdir, verbose=verbose, target=target, debug=debug)
                sc.me().compiles += 1
                d = Path(tmpdir)
                ok = lambda v, e: "ok" if e is None else "error:" + type(e).__name__  # noqa: E731

                def src():
                    print(f"generating {d / ref.c_name}")
                    tmp = d / (ref.c_name + ".~verif")
                    tmp.write_bytes(ref.c_bytes)
                    os.replace(tmp, d / ref.c_name)

                def obj():
                    print("running build_ext (replayed)")
                    (d / ref.o_name).write_bytes(ref.o_bytes)

                def link1():
                    sc.so_gen += 1
                    p = d / ref.so_name
                    try:
                        os.unlink(p)
                    except FileNotFoundError:
                        pass
                    p.write_bytes(ref.so_bytes[: len(ref.so_bytes) // 2])

                def link2():
                    with open(d / ref.so_name, "ab") as f:
                        f.write(ref.so_bytes[len(ref.so_bytes) // 2:])

                sc.gate("src", src, ok)
                sc.gate("obj", obj, ok)
                sc.gate("link1", link1, ok)
                sc.gate("link2", link2, ok)
                return str(d / ref.so_name)

        cffi_shim = types.SimpleNamespace(FFI=GatedFFI, VerificationError=cffi.VerificationError)

        self._saved = {
            "os": jit.os, "time": jit.time, "importlib": jit.importlib, "cffi": jit.cffi,
            "root_logger": jit.root_logger, "redirect_stdout": jit.redirect_stdout, "Path": jit.Path,
            "has_open": "open" in jit.__dict__, "open": jit.__dict__.get("open"),
            "compile_ufl_objects": ffcx.compiler.compile_ufl_objects,
            "handlers": list(real_root.handlers), "stdout": sys.stdout,
        }
        jit.os = OsShim()
        jit.time = TimeShim()
        jit.importlib = importlib_shim
        jit.cffi = cffi_shim
        jit.root_logger = RootProxy()
        jit.redirect_stdout = Redirect
        jit.Path = GatedPath
        jit.open = self._open
        ffcx.compiler.compile_ufl_objects = self._compile_ufl_objects

    def uninstall(self):
        s = self._saved
        if s is None:
            return
        jit.os, jit.time, jit.importlib, jit.cffi = s["os"], s["time"], s["importlib"], s["cffi"]
        jit.root_logger, jit.redirect_stdout, jit.Path = s["root_logger"], s["redirect_stdout"], s["Path"]
        if s["has_open"]:
            jit.open = s["open"]
        else:
            jit.__dict__.pop("open", None)
        ffcx.compiler.compile_ufl_objects = s["compile_ufl_objects"]
        logging.getLogger().handlers = s["handlers"]
        sys.stdout = s["stdout"]
        self._saved = None
        self.current = None

    def __enter__(self):
        self.install()
        return self

    def __exit__(self, *a):
        if self.current is not None and self.current.started:
            try:
                self.current.close()
            except Exception:  # noqa: BLE001
                pass
        self.uninstall()


def patches_intact():
    """True iff none of jit.py's globals is still patched (used by the checks' self-test)."""
    want = {"os": os, "time": _time, "importlib": importlib, "cffi": cffi, "root_logger": logging.getLogger(),
            "redirect_stdout": contextlib.redirect_stdout, "Path": pathlib.Path}
    # (a global jit.py does not have cannot be patched: see CannotGate)
    return (
        all(getattr(jit, n) is v for n, v in want.items() if hasattr(jit, n))
        and "open" not in jit.__dict__ and ffcx.compiler.compile_ufl_objects.__module__ == "ffcx.compiler"
    )


def leftover_threads():
    return [t.name for t in threading.enumerate() if t.name.startswith("jitreq")]


# ------------------------------------------------------------------- model <-> implementation glue


def schedule_sexp(n, timeout, schedule):
    return f"(cache {n} {timeout} (schedule " + " ".join(f"({p} {c})" for p, c in schedule) + "))"


_EXC_OF = {
    ("raised", "timeout"): "TimeoutError",
    ("raised", "notfound"): "ModuleNotFoundError",
}


def model_status(proc):
    """Model `(pid pc nextop polls h s)` -> (kind, detail, nextop, polls) like Scenario.status."""
    _pid, pc, nextop, polls, _h, _s, tok = proc
    polls = int(polls)
    if pc == "dead":
        return ("dead", None, "none", polls)
    if isinstance(pc, list) and pc[0] == "done":
        if pc[2] != "complete":
            # the harness never dlopens a file that is not byte-complete: the import is answered with ImportError
            return ("raised", "ImportError", "none", polls)
        return ("done", (pc[1] == "true", pc[2], int(tok)), "none", polls)
    if isinstance(pc, list) and pc[0] == "raised":
        if pc[1] == "build":
            exc = {"gen": "InjectedCodegenError", "compile": "InjectedCompileError", "marker": "FileExistsError",
                   "tmpexists": "FileExistsError", "tmpopen": "InjectedMarkerOpenError",
                   "tmpwrite": "InjectedMarkerWriteError", "publish": "InjectedPublishError"}[pc[2]]
        else:
            exc = _EXC_OF[("raised", pc[1])]
        return ("raised", exc, "none", polls)
    return ("running", None, nextop, polls)


def compare(sc: Scenario, reply, schedule):
    """Diff a finished scenario against the model's reply. Returns a list of differences."""
    diffs = []
    if reply[0] != "ok":
        return [("model-error", reply)]
    mtrace = reply[1][1:]
    mfs = reply[2][1:]
    mprocs = reply[3][1:]
    mcnt = [int(x) for x in reply[4][1:]]
    # per-step observables; the model's globals are per process, the threads share one process:
    # the real observation is "some request's globals are swapped" (at most one live builder)
    G = {}
    for k, (real, mod) in enumerate(zip(sc.trace, mtrace)):
        pid, op, res, h, s = int(mod[0]), mod[1], mod[2], mod[3], mod[4]
        G[pid] = (h, s)
        if (real[0], real[1], real[2]) != (pid, op, res):
            diffs.append(("step", k, {"impl": list(real[:3]), "model": [pid, op, res]}))
            break
        ph = "capture" if any(g[0] == "capture" for g in G.values()) else "user"
        ps = "capture" if any(g[1] == "capture" for g in G.values()) else "user"
        if (real[3], real[4]) != (ph, ps):
            diffs.append(("globals", k, {"impl": list(real[3:]), "model": [ph, ps], "step": [pid, op, res]}))
            break
    if len(sc.trace) != len(mtrace):
        diffs.append(("trace-length", len(sc.trace), len(mtrace)))
    fs, extra = sc.fs()
    want = {"lock": mfs[0], "so": mfs[1], "obj": mfs[2] == "true", "marker": mfs[3] == "true", "failed": mfs[4] == "true",
            "tmp": mfs[6] == "true"}
    if fs != want:
        diffs.append(("fs", {"impl": fs, "model": want}))
    if sc.so_gen != int(mfs[5]):
        diffs.append(("so-generation", {"impl": sc.so_gen, "model": int(mfs[5])}))
    if extra:
        diffs.append(("unexpected-files", extra))
    for proc in mprocs:
        pid = int(proc[0])
        ms = model_status(proc)
        rs = sc.status(pid)
        if ms != rs:
            diffs.append(("status", pid, {"impl": list(map(str, rs)), "model": list(map(str, ms))}))
    rc = [sc.counters["lock_ok"], sc.counters["release_ok"], sc.counters["compile"]]
    if rc != mcnt:
        diffs.append(("counters", {"impl": rc, "model": mcnt}))
    for st in sc.procs:
        if st.sleeps != st.polls:
            diffs.append(("sleeps", st.pid, st.sleeps, st.polls))
    return diffs


# ----------------------------------------------------------------- real processes (end to end)


def _worker_main(argv):
    """`python -m harness.sched worker <cache_dir> <timeout> <barrier_dir> <id> <n>`: one real request."""
    import json

    cache_dir, timeout, barrier, wid, n = argv[0], int(argv[1]), Path(argv[2]), argv[3], int(argv[4])
    entry, factory, check = API[argv[5] if len(argv) > 5 else "forms"]
    form = factory()
    (barrier / f"ready{wid}").write_text("x")
    t0 = _time.time()
    while len([x for x in os.listdir(barrier) if x.startswith("ready")]) < n:
        if _time.time() - t0 > 60:
            break
        _time.sleep(0.005)
    out = {"id": wid}
    try:
        objs, mod, code = getattr(jit, entry)([form], cache_dir=cache_dir, timeout=timeout)
        ok, val = check(objs[0], mod)
        out.update(built=code[0] is not None, kernel_ok=ok, value=val)
    except BaseException as e:  # noqa: BLE001
        out.update(exc=type(e).__name__, msg=str(e)[:200])
    out["handlers_ok"] = logging.getLogger().handlers == []
    out["stdout_ok"] = sys.stdout is sys.__stdout__
    print("RESULT " + json.dumps(out))


def real_processes(cache_dir: Path, barrier: Path, n=3, timeout=60, api="forms"):
    """n real processes request the tiny form (expression) on one cache directory simultaneously."""
    import json
    import subprocess

    barrier.mkdir(parents=True, exist_ok=True)
    env = dict(os.environ)
    env["PYTHONPATH"] = str(Path(__file__).resolve().parent.parent) + os.pathsep + env.get("PYTHONPATH", "")
    ps = [
        subprocess.Popen(
            [sys.executable, "-m", "harness.sched", "worker", str(cache_dir), str(timeout), str(barrier), str(i), str(n), api],
            stdout=subprocess.PIPE, stderr=subprocess.PIPE, text=True, env=env,
        )
        for i in range(n)
    ]
    res = []
    for p in ps:
        try:
            o, e = p.communicate(timeout=300)
        except subprocess.TimeoutExpired:
            p.kill()
            o, e = p.communicate()
        line = [l for l in o.splitlines() if l.startswith("RESULT ")]
        res.append(json.loads(line[-1][7:]) if line else {"exc": "no-result", "msg": (e or "")[-300:]})
    return res


if __name__ == "__main__":
    if len(sys.argv) > 1 and sys.argv[1] == "worker":
        _worker_main(sys.argv[2:])
