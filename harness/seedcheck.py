"""Run checks against a seeded change WITHOUT touching /repo: the patch is applied in a scratch
worktree and the harness is pointed at it (PYTHONPATH + FFCX_REPO).

usage: python -m harness.seedcheck <dir with patch.diff> <Cxx> [<Cyy> …]
       python -m harness.seedcheck --matrix            # every /verif/seeded/<id> against its property's check;
                                                       # writes seeded/RESULTS.json and seeded/RESULTS.md
prints one line per check: property, exit code, VIOLATION/KNOWN lines.
(The documented way to test a seed against the real layout is still `git -C /repo apply`, run, `git -C /repo checkout -- .`;
this script does the same on a shadow tree so that /repo is never modified while other jobs use it.)
"""
import json
import os
import shutil
import subprocess
import sys
import time
from pathlib import Path

VERIF = Path(__file__).resolve().parent.parent


def run_seed(seed, checks, tier="quick"):
    seed = Path(seed).resolve()
    wt = Path(f"/tmp/mutval/{seed.name}_{os.getpid()}")
    wt.parent.mkdir(parents=True, exist_ok=True)
    subprocess.run(["git", "-C", "/repo", "worktree", "add", "--detach", str(wt), "HEAD"], check=True, capture_output=True)
    results = {}
    try:
        r = subprocess.run(["git", "-C", str(wt), "apply", str(seed / "patch.diff")], capture_output=True, text=True)
        if r.returncode != 0:
            r = subprocess.run(["git", "-C", str(wt), "apply", "--3way", str(seed / "patch.diff")], capture_output=True, text=True)
        if r.returncode != 0:
            return {"_error": "PATCH DOES NOT APPLY: " + r.stderr[:500]}
        env = dict(os.environ)
        env["FFCX_REPO"] = str(wt)
        env["PYTHONPATH"] = f"{wt}:{env.get('PYTHONPATH', '')}"
        for c in checks:
            t0 = time.time()
            p = subprocess.run(["./check", c, "--tier", tier], cwd=VERIF, env=env, capture_output=True, text=True, timeout=7200)
            lines = [l for l in p.stdout.splitlines() if l.startswith(("VIOLATION", "KNOWN-FINDING", "[" + c))]
            keys, broken = [], []
            for l in lines:
                if l.startswith("VIOLATION") and "replay=" in l:
                    rp = l.split("replay=")[1].split()[0]
                    try:
                        d = json.loads(Path(rp).read_text())
                        keys = sorted({v["key"] for v in d.get("violations", [])})
                        broken = sorted({b.get("kind", "") + ":" + str(b.get("what", b.get("module", "")))[:80] for b in d.get("broken", [])})
                    except Exception:
                        pass
            results[c] = {"exit": p.returncode, "wall_s": round(time.time() - t0), "violation_keys": keys[:12], "n_keys": len(keys),
                          "broken": broken[:6], "no_failing_input_found": any("no-failing-input-found" in l for l in lines),
                          "lines": [l[:200] for l in lines]}
    finally:
        subprocess.run(["git", "-C", "/repo", "worktree", "remove", "--force", str(wt)], capture_output=True)
        shutil.rmtree(wt, ignore_errors=True)
        # generated translator tables / evidence were rewritten from the mutated tree: restore the committed ones
        subprocess.run(["git", "-C", str(VERIF), "checkout", "--", "lean/FfcxModel/Generated", "evidence"], capture_output=True)
    return results


# checks that should ALSO see a seed (besides the one of its property)
ALSO = {"C10_m2": ["C13"], "C08_m1": ["C05"], "C08_m2": ["C03"], "C12_m2": ["C13"], "C13_m2": ["C12"], "C17_m2": ["C02"], "C14_m2": ["C15"],
        "C04_m1": ["C05"], "C01_m2": ["C02"]}


def matrix(only=None):
    out = {}
    res_file = VERIF / "seeded" / "RESULTS.json"
    if res_file.exists():
        out = json.loads(res_file.read_text())
    for d in sorted((VERIF / "seeded").iterdir()):
        if not (d / "patch.diff").exists() or (only and d.name not in only):
            continue
        prop = d.name.split("_")[0]
        checks = [prop] + ALSO.get(d.name, [])
        r = run_seed(d, checks)
        out[d.name] = r
        print(d.name, {c: (v["exit"], v["violation_keys"][:3], v["broken"][:2]) if isinstance(v, dict) else v for c, v in r.items()}, flush=True)
        res_file.write_text(json.dumps(out, indent=1, sort_keys=True))
    lines = ["| seed | changed file(s) | check | exit | how it was caught |", "|---|---|---|---|---|"]
    for name, r in sorted(out.items()):
        try:
            meta = json.loads((VERIF / "seeded" / name / "meta.json").read_text())
        except Exception:
            meta = {}
        files = ", ".join(f.replace("ffcx/", "") for f in meta.get("files_touched", []))
        for c, v in r.items():
            if not isinstance(v, dict):
                lines.append(f"| {name} | {files} | {c} | - | {v} |")
                continue
            how = "; ".join(v["violation_keys"][:3]) or ("; ".join(v["broken"][:2]) + (" (no failing input found)" if v["no_failing_input_found"] else "")) or "not caught"
            lines.append(f"| {name} | {files} | {c} | {v['exit']} | {how[:200]} |")
    (VERIF / "seeded" / "RESULTS.md").write_text("\n".join(lines) + "\n")


def main():
    if sys.argv[1] == "--matrix":
        matrix(set(sys.argv[2:]) or None)
        return 0
    r = run_seed(sys.argv[1], sys.argv[2:])
    if "_error" in r:
        print(r["_error"])
        return 2
    for c, v in r.items():
        print(f"{c}: exit={v['exit']} wall={v['wall_s']}s {' | '.join(v['lines'])[:400]} keys={v['violation_keys'][:6]} broken={v['broken'][:4]}")
    return 0


if __name__ == "__main__":
    sys.exit(main())
