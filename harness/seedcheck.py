"""Run checks against a seeded change WITHOUT touching /repo: the patch is applied in a scratch
worktree and the harness is pointed at it (PYTHONPATH + FFCX_REPO).

usage: python -m harness.seedcheck <dir with patch.diff> <Cxx> [<Cyy> …]
prints one line per check: property, exit code, VIOLATION/KNOWN lines.
"""
import json
import os
import shutil
import subprocess
import sys
import time
from pathlib import Path

VERIF = Path(__file__).resolve().parent.parent


def main():
    seed = Path(sys.argv[1]).resolve()
    checks = sys.argv[2:]
    wt = Path(f"/tmp/mutval/{seed.parent.parent.name}_{seed.name}_{os.getpid()}")
    wt.parent.mkdir(parents=True, exist_ok=True)
    subprocess.run(["git", "-C", "/repo", "worktree", "add", "--detach", str(wt), "HEAD"], check=True, capture_output=True)
    results = {}
    try:
        r = subprocess.run(["git", "-C", str(wt), "apply", str(seed / "patch.diff")], capture_output=True, text=True)
        if r.returncode != 0:
            r = subprocess.run(["git", "-C", str(wt), "apply", "--3way", str(seed / "patch.diff")], capture_output=True, text=True)
        if r.returncode != 0:
            print("PATCH DOES NOT APPLY:", r.stderr[:500])
            return 2
        env = dict(os.environ)
        env["FFCX_REPO"] = str(wt)
        env["PYTHONPATH"] = f"{wt}:{env.get('PYTHONPATH', '')}"
        for c in checks:
            t0 = time.time()
            p = subprocess.run(["./check", c, "--tier", "quick"], cwd=VERIF, env=env, capture_output=True, text=True, timeout=3600)
            lines = [l for l in p.stdout.splitlines() if l.startswith(("VIOLATION", "KNOWN-FINDING", "[" + c))]
            detail = ""
            for l in lines:
                if l.startswith("VIOLATION") and "replay=" in l:
                    rp = l.split("replay=")[1].split()[0]
                    try:
                        d = json.loads(Path(rp).read_text())
                        keys = [v["key"] for v in d.get("violations", [])][:6]
                        broken = [b.get("kind", "") + ":" + str(b.get("what", b.get("module", "")))[:60] for b in d.get("broken", [])][:4]
                        detail = f" keys={keys} broken={broken}"
                    except Exception:
                        pass
            results[c] = p.returncode
            print(f"{c}: exit={p.returncode} wall={time.time() - t0:.0f}s {' | '.join(l[:140] for l in lines)}{detail}")
            sys.stdout.flush()
    finally:
        subprocess.run(["git", "-C", "/repo", "worktree", "remove", "--force", str(wt)], capture_output=True)
        shutil.rmtree(wt, ignore_errors=True)
        # generated translator tables were rewritten from the mutated tree: restore the committed ones
        subprocess.run(["git", "-C", str(VERIF), "checkout", "--", "lean/FfcxModel/Generated", "evidence"], capture_output=True)
    return 0


if __name__ == "__main__":
    sys.exit(main())
