"""C09 (dtype discipline): per-kernel certificates of `Ffcx.LNodes.dtype_sound`, the complete
`math_table` signature scan, and complex-mode probe forms.

In a complex kernel FFCx declares some names `double` (DataType.REAL) and others `double _Complex`
(SCALAR).  The C formatter uses the real `<math.h>` function iff NO argument of a MathFunction is SCALAR,
the `<complex.h>` function otherwise, and refuses (RuntimeError) a function without a complex version on a
SCALAR argument.  C converts complex → double silently.  `(dtypecert <strict> <kernel>)` evaluates the Lean
certificate `dtypeCert` (lean/FfcxModel/LNodes/DtypeCert.lean); `FfcxProofs/C09Sound.lean` proves that a
certified kernel never takes such a conversion on a value that is not real (`dtype_sound`: certificate ⇒
execT = exec).

  check_dtype_certificates(chk, d, entries, scalar_types)   every kernel AST of the entries, optimised and
        unoptimised, for each scalar type (strict certificate for complex types, agreement-only for real
        types); `chk.disagree` with the offending statement for a kernel failing it; for complex types a
        numeric witness is searched (C kernel on complex data vs NumPy complex arithmetic) and reported
        through `chk.violation`.
  check_dtype_probes(chk, d)    own complex-mode forms: every math function on complex data, Real/Imag/Abs
        temporaries, real functions of geometry … (must be certified AND match complex arithmetic);
        `x[0]**(1+2j)` (formerly emitted as real `pow`: must now be certified and match); functions without a
        complex version on complex arguments (must be REJECTED before C is emitted — accepted-and-truncating is
        the violation); a REAL operand outside the real domain of `sqrt` (known finding).
  check_math_table(chk, d)      complete scan of the formatter's function selection: for every handler name ×
        scalar type × dtype combination of the arguments, the function really emitted by the C formatter (or its
        refusal) is classified with the C99 <math.h>/<complex.h> signature table below and compared with the
        model (`truncatesArgs`, `callTy`, `formatRejects`).

Needs in Driver.lean:   import FfcxModel.Driver.Dtype   and   | "dtypecert" => Driver.handleDtypeCert args
"""
import math
import re
from pathlib import Path

import numpy as np

from . import kernels, pipeline

_LEAN = Path(__file__).resolve().parent.parent / "lean"

DTYPE_MODULE = "FfcxProofs.C09Sound"
DTYPE_THEOREMS = [
    "Ffcx.LNodes.tyOf_real",
    "Ffcx.LNodes.evalG_eq",
    "Ffcx.LNodes.store_realStore",
    "Ffcx.LNodes.dtype_sound_stmt",
    "Ffcx.LNodes.dtype_sound",
    "Ffcx.LNodes.dtype_sound_execT",
    "Ffcx.LNodes.truncation_free",
    "Ffcx.LNodes.real_targets_receive_reals",
    "Ffcx.LNodes.execG_id",
    "Ffcx.LNodes.dtype_sound_real_carrier",
    "Ffcx.LNodes.truncation_counterexample",
    "Ffcx.LNodes.real_pow_complex_exponent_certified",
    "Ffcx.LNodes.nested_call_counterexample",
    "Ffcx.LNodes.rejected_call_example",
    "Ffcx.LNodes.gauss_lawful",
    "Ffcx.LNodes.dtypeCert_example",
    "Ffcx.LNodes.isReal_realVal",
]
DTYPE_FILES = [str(_LEAN / f) for f in (
    "FfcxModel/LNodes/DtypeCert.lean",
    "FfcxModel/Driver/Dtype.lean",
    "FfcxProofs/C09Sound.lean",
    "FfcxProofs/Lemmas/DtypeBase.lean",
    "FfcxProofs/Lemmas/DtypeEval.lean",
    "FfcxProofs/Lemmas/DtypeExec.lean",
    "FfcxProofs/Lemmas/DtypeGauss.lean",
)]

# ------------------------------------------------------------------------------------------------
# C99 signature classes:  name -> (parameter class, result class, precision)
#   parameter/result class: "real" (float/double/long double) | "complex" (… _Complex)
#   precision: "f" float, "d" double, "l" long double
# <math.h> 7.12 and <complex.h> 7.3 of ISO C99 (jn/yn: POSIX, double only).
_R1 = ["sqrt", "fabs", "cos", "sin", "tan", "acos", "asin", "atan", "cosh", "sinh", "tanh", "acosh", "asinh", "atanh",
       "exp", "log", "erf", "pow", "atan2", "fmin", "fmax"]
_C1 = ["csqrt", "ccos", "csin", "ctan", "cacos", "casin", "catan", "ccosh", "csinh", "ctanh", "cacosh", "casinh", "catanh",
       "cexp", "clog", "cpow", "conj"]
_CR = ["cabs", "creal", "cimag"]
C99 = {}
for _n in _R1:
    C99[_n] = ("real", "real", "d")
    C99[_n + "f"] = ("real", "real", "f")
    C99[_n + "l"] = ("real", "real", "l")
for _n in _C1:
    C99[_n] = ("complex", "complex", "d")
    C99[_n + "f"] = ("complex", "complex", "f")
    C99[_n + "l"] = ("complex", "complex", "l")
for _n in _CR:
    C99[_n] = ("complex", "real", "d")
    C99[_n + "f"] = ("complex", "real", "f")
    C99[_n + "l"] = ("complex", "real", "l")
C99["jn"] = ("real", "real", "d")   # double jn(int, double)  (POSIX; no float/complex variant in C)
C99["yn"] = ("real", "real", "d")
_PREC = {"float64": "d", "float32": "f", "complex128": "d", "complex64": "f", "longdouble": "l"}
_SCALAR_TYPES = ("float64", "float32", "complex128", "complex64")


def _handler_names():
    import ufl
    import ffcx.codegeneration.lnodes as L
    names = set()
    for cls, fn in L._ufl_call_lookup.items():
        if fn is L._math_function and cls is not ufl.mathfunctions.MathFunction:
            names.add(cls._ufl_handler_name_)
    return sorted(names)


_TWO_ARGS = {"power", "atan2", "atan_2", "min_value", "max_value"}
_BESSEL = {"bessel_j", "bessel_y", "bessel_i", "bessel_k"}


def _arg_combos(name):
    """dtype tuples of the arguments to scan: every combination for binary functions (the table must be the
    complex one iff SOME argument is SCALAR — a formatter that decides otherwise is caught by the mixed rows)."""
    if name in _BESSEL:
        return [("int", d) for d in ("real", "scalar", "int")]
    if name in _TWO_ARGS:
        return [(a, b) for a in ("real", "scalar", "int") for b in ("real", "scalar", "int")]
    return [("real",), ("scalar",), ("int",)]


def _emitted(name, scalar_type, dts):
    """(function name the REAL C formatter emits for MathFunction(name, args) with args of dtypes `dts`, or None if
    it refuses the node with a RuntimeError; the error text)."""
    import ffcx.codegeneration.lnodes as L
    from ffcx.codegeneration.C.formatter import Formatter
    D = {"real": L.DataType.REAL, "scalar": L.DataType.SCALAR, "int": L.DataType.INT}
    args = [L.LiteralInt(1) if (d == "int") else L.Symbol("ab"[i], D[d]) for i, d in enumerate(dts)]
    node = L.MathFunction(name, args)
    try:
        txt = Formatter(np.dtype(scalar_type))(node)
    except RuntimeError as ex:
        return None, str(ex)
    return txt.split("(", 1)[0], None


_ORDER = {"f": 0, "d": 1, "l": 2}


def _folds(name, dt0):
    """Does lnodes._math_function fold `name` away on an operand of dtype dt0 (so that no call is emitted)?"""
    import ffcx.codegeneration.lnodes as L

    class _Op:
        _ufl_handler_name_ = name
    D = {"real": L.DataType.REAL, "scalar": L.DataType.SCALAR, "int": L.DataType.INT}
    return not isinstance(L._math_function(_Op, L.Symbol("a", D[dt0])), L.MathFunction)


def _real_mode_strips_complex_nodes():
    """In a real kernel UFL's remove_complex_nodes has removed conj/real/imag: no such call reaches LNodes."""
    from ufl import Coefficient, TestFunction, conj, dx, real
    from . import sexp
    from .corpus import Entry, space

    def b():
        m, V = space("triangle", "P", 1)
        v, f = TestFunction(V), Coefficient(V)
        return [(real(f) + conj(f) * f) * v * dx]   # (`imag` is rejected by UFL in real mode)
    cases = kernels.cases_for_entry(Entry("dtype_real_mode_strip", b), pipeline.default_options(scalar_type="float64"))[0]
    return not any(re.search(r"\(call (real|imag|conj) ", c.ast_sexp) for c in cases)


def check_math_table(chk, d):
    """Complete scan.  Returns the list of rows (also summarised in chk.notes)."""
    rows, rejected, wider, folded = [], [], [], []
    stripped = _real_mode_strips_complex_nodes()
    if not stripped:
        chk.disagree("math table: conj/real/imag reach LNodes in a real kernel (UFL's remove_complex_nodes expected)", {})
    for name in _handler_names():
        for st in _SCALAR_TYPES:
            cplx = st.startswith("complex")
            for dts in _arg_combos(name):
                dt0 = dts[-1] if name in _BESSEL else dts[0]     # dtype of the (first) scalar operand
                if name in ("conj", "real", "imag"):
                    if not cplx:
                        continue      # cannot occur: stripped by UFL in real mode (checked above)
                    if dt0 == "int":
                        continue      # conj/real/imag of an INT operand: UFL folds these on literals; no INT-typed terminal is complex
                    if _folds(name, dt0):
                        folded.append(f"{name}({dt0})")
                        continue      # lnodes._math_function returns the operand / 0.0: no call is emitted
                fn, err = _emitted(name, st, dts)
                any_scalar = "scalar" in dts
                sig = C99.get(fn) if fn is not None else None
                row = {"name": name, "scalar_type": st, "args": list(dts), "emitted": fn, "sig": sig}
                rows.append(row)
                chk.case("math_table_sig", f"{name}:{st}:{'/'.join(dts)}")
                key = f"c09:mathtable:{name}:{st}"
                r = d.ask(f"(dtypecert sig {name} {' '.join(dts)})")
                model_trunc, model_ty, model_rejects = r[1] == "true", r[2], r[4] == "true"
                if fn is None:
                    # refused by the formatter: only a function without a complex version on a SCALAR argument in a
                    # complex kernel may be refused
                    rejected.append(f"{name}({'/'.join(dts)}) [{st}]")
                    if not cplx:
                        chk.violation(key, f"`{name}` is refused by the C formatter for the real scalar type {st}: {err}", row)
                    elif not model_rejects:
                        chk.disagree("math table: the C formatter refuses a call the model (`formatRejects`) accepts",
                                     {"name": name, "scalar_type": st, "args": list(dts), "error": err, "model": r})
                    continue
                if sig is None:
                    chk.violation(key, f"math function `{name}` is emitted as `{fn}` for {st}: not a C99/POSIX function",
                                  {"name": name, "type": st, "emitted": fn})
                    continue
                par, res, prec = sig
                if cplx:
                    # the model describes complex kernels (for real scalar types SCALAR and REAL are the same C type)
                    if model_rejects:
                        chk.disagree("math table: the C formatter emits a call the model says it refuses (function without a complex "
                                     "version on a SCALAR argument: C would drop the imaginary part)",
                                     {"name": name, "scalar_type": st, "args": list(dts), "emitted": fn, "c99": sig, "model": r})
                        continue
                    if model_trunc != (par == "real"):
                        chk.disagree("math table: model `truncatesArgs` disagrees with the C signature of the emitted function",
                                     {"name": name, "scalar_type": st, "args": list(dts), "emitted": fn, "c99": sig, "model": r})
                    if (model_ty == "real") != (res == "real"):
                        chk.disagree("math table: model `callTy` disagrees with the C result type of the emitted function",
                                     {"name": name, "scalar_type": st, "args": list(dts), "emitted": fn, "c99": sig, "model": r})
                    if par == "real" and any_scalar:
                        # independent of the model: a function with double parameters must never be emitted with a SCALAR argument
                        chk.violation(key, f"`{name}` with a SCALAR argument is emitted as `{fn}`, whose parameters are real: "
                                           "C drops the imaginary part silently", row)
                    if par == "complex" and not any_scalar:
                        chk.violation(key, f"`{name}` without any SCALAR operand is emitted as complex `{fn}`", row)
                elif par != "real":
                    chk.violation(key, f"`{name}` is emitted as `{fn}` for {st}: complex function in a real kernel", row)
                # precision: a NARROWER function loses digits (violation); a wider one (double `atan2`/`erf`/`jn`/`yn` in a
                # float kernel: dead key "atan_2", no float Bessel in C) only converts float -> double -> float (noted)
                if _ORDER[prec] < _ORDER[_PREC[st]]:
                    chk.violation(key + ":precision", f"`{name}` is emitted as `{fn}` for {st}: narrower floating precision", row)
                elif _ORDER[prec] > _ORDER[_PREC[st]]:
                    wider.append(f"{name}->{fn} ({st})")
    chk.notes["dtype_math_table_rows"] = len(rows)
    chk.notes["dtype_math_table_refused_in_complex_mode"] = sorted(set(rejected))[:60]
    chk.notes["dtype_math_table_wider_precision"] = sorted(set(wider))
    chk.notes["dtype_math_table_folded"] = sorted(set(folded))
    return rows


# ------------------------------------------------------------------------------------------------
def _variants(entry, scalar_type):
    from .props.c17 import _NoOpt
    opts = pipeline.default_options(scalar_type=scalar_type)
    yield "opt", kernels.cases_for_entry(entry, opts)[0]
    with _NoOpt():
        cases = kernels.cases_for_entry(entry, opts)[0]
    yield "noopt", cases


def parse_reply(r):
    if not r or r[0] != "ok":
        return None
    f = {x[0]: x[1:] for x in r[2:]}
    from . import sexp
    bad = f["bad"][0]
    return {"cert": r[1] == "true", "bad": None if bad == "none" else sexp.dumps(bad)[:600], "why": f["why"][0],
            "real_stores": int(f["counts"][0]), "real_param_calls": int(f["counts"][1]), "calls": int(f["counts"][2])}


def new_summary():
    return {"kernels": 0, "certified": 0, "failed": [], "by_type": {}, "nontrivial": 0, "strict_on_real": []}


class _ComplexSpecials:
    """Context: the oracle evaluates erf and Bessel J of COMPLEX arguments (power series in NumPy complex
    arithmetic) instead of taking real parts / refusing — needed to witness truncations of F18's kind."""

    @staticmethod
    def erf(z):
        z = np.asarray(z, dtype=complex)
        s = np.zeros_like(z)
        t = z.copy()
        for n in range(120):
            s = s + t / (2 * n + 1)
            t = -t * z * z / (n + 1)
        return 2.0 / math.sqrt(math.pi) * s

    @staticmethod
    def besselj(nu, z):
        z = np.asarray(z, dtype=complex)
        s = np.zeros_like(z)
        for m in range(80):
            s = s + (-1.0) ** m / (math.factorial(m) * math.factorial(m + nu)) * (z / 2) ** (2 * m + nu)
        return s

    def __enter__(self):
        from . import oracle
        C = oracle.C
        self.oracle = oracle
        self.saved = (oracle._erf, oracle.Interp.ev)
        oracle._erf = lambda x: _ComplexSpecials.erf(x) if np.iscomplexobj(x) else self.saved[0](x)
        orig = oracle.Interp.ev

        def ev(self_, e, env, side=None, derivs=()):
            if not derivs:
                if isinstance(e, C.BesselJ):
                    nu = int(e.ufl_operands[0])
                    return _ComplexSpecials.besselj(nu, orig(self_, e.ufl_operands[1], env, side))
                # complex mode: every value is mathematically complex — sqrt/ln/acos/… and ** of a negative REAL
                # operand are the complex functions (UFL's own evaluation falls back to cmath), not NaN
                if isinstance(e, C.Power):
                    a = orig(self_, e.ufl_operands[0], env, side)
                    b = orig(self_, e.ufl_operands[1], env, side)
                    return np.power(np.asarray(a, dtype=complex), b)
                for cls, fn in oracle._MATH.items():
                    if isinstance(e, cls):
                        return fn(np.asarray(orig(self_, e.ufl_operands[0], env, side), dtype=complex))
            return orig(self_, e, env, side, derivs)
        oracle.Interp.ev = ev
        return self

    def __exit__(self, *a):
        self.oracle._erf, self.oracle.Interp.ev = self.saved


def numeric_witness(entry, scalar_type, seed=0):
    """Compile with the complex scalar type, run on complex data, compare with the oracle in NumPy complex
    arithmetic.  Returns (bad-list, info)."""
    from . import numeric
    with _ComplexSpecials():
        r = numeric.compare_entry(entry, {"scalar_type": scalar_type}, seed=seed, reps=1, complex_data=True)
    r.pop("trace", None)
    return r.get("bad", []), r


def check_dtype_kernel(chk, d, c, tag, entry, scalar_type, summary, witness=True):
    strict = scalar_type.startswith("complex")
    r = d.ask(f"(dtypecert {'true' if strict else 'false'} {c.ast_sexp})")
    p = parse_reply(r)
    summary["kernels"] += 1
    bt = summary["by_type"].setdefault(scalar_type, {"kernels": 0, "certified": 0})
    bt["kernels"] += 1
    key = f"{c.name}:{scalar_type}:{tag}"
    if p is None:
        chk.disagree("dtype certificate: driver could not evaluate the kernel", {"kernel": key, "reply": str(r)[:300]})
        summary["failed"].append(key)
        return False
    # distinct non-trivial: a complex kernel that really has conversion points (a store into a `double`
    # target or a call of a function with `double` parameters)
    nontriv = strict and (p["real_stores"] + p["real_param_calls"] > 0)
    summary["nontrivial"] += 1 if nontriv else 0
    chk.case("dtypecert", key if nontriv else None,
             sample={"kernel": key, "real_stores": p["real_stores"], "real_param_calls": p["real_param_calls"],
                     "calls": p["calls"]} if nontriv and len(chk.samples) < 4 else None)
    if not strict:
        # informational: would the real kernel pass the strict certificate?  (it need not: SCALAR = double)
        r2 = parse_reply(d.ask(f"(dtypecert true {c.ast_sexp})"))
        if r2 and not r2["cert"]:
            summary["strict_on_real"].append({"kernel": key, "why": r2["why"]})
    if p["cert"]:
        summary["certified"] += 1
        bt["certified"] += 1
        return True
    summary["failed"].append(key)
    payload = {"kernel": c.name, "variant": tag, "entry": entry.name, "scalar_type": scalar_type,
               "why": p["why"], "offending_statement": p["bad"]}
    chk.disagree("dtype certificate fails: " + p["why"], payload)
    if strict and witness:
        bad, info = numeric_witness(entry, scalar_type, seed=chk.seed)
        if bad:
            chk.violation(f"c09:dtype-truncation:{entry.name}",
                          f"{scalar_type} kernel drops an imaginary part ({p['why']}); C kernel differs from complex arithmetic (rel {bad[0].get('relerr')})",
                          {**payload, **bad[0]})
        else:
            payload["numeric"] = {k: info.get(k) for k in ("compared", "maxrel", "unsupported", "error")}
    return False


def check_dtype_certificates(chk, d, entries, scalar_types=("complex128", "float64")):
    """Evaluate the certificate on every kernel of `entries` (opt + noopt) for each scalar type."""
    summary = new_summary()
    for st in scalar_types:
        for e in entries:
            if "complex" in e.tags and not st.startswith("complex"):
                continue
            try:
                variants = list(_variants(e, st))
            except BaseException as ex:  # ArityMismatch is a BaseException: form not valid in complex mode
                if isinstance(ex, (KeyboardInterrupt, SystemExit)):
                    raise
                chk.notes.setdefault("dtype_skipped", []).append(f"{e.name}/{st}: {type(ex).__name__}")
                continue
            seen_fail = False
            for tag, cases in variants:
                for c in cases:
                    ok = check_dtype_kernel(chk, d, c, tag, e, st, summary, witness=not seen_fail)
                    seen_fail = seen_fail or not ok
    chk.notes["dtype_kernels"] = chk.notes.get("dtype_kernels", 0) + summary["kernels"]
    chk.notes["dtype_certified"] = summary["certified"]
    chk.notes["dtype_by_type"] = summary["by_type"]
    chk.notes["dtype_nontrivial_kernels"] = summary["nontrivial"]
    chk.notes["dtype_failed"] = summary["failed"][:40]
    chk.notes["dtype_real_kernels_failing_strict"] = summary["strict_on_real"][:20]
    return summary


# ------------------------------------------------------------------------------------------------
# complex-mode probe forms (all valid in UFL's complex mode: the test function is conjugated)
def _probe(which):
    def b():
        import ufl
        from ufl import (Coefficient, Constant, SpatialCoordinate, TestFunction, TrialFunction, conj, dx, ds, inner,
                         real, imag, sqrt, exp, ln, cos, sin, tan, cosh, sinh, tanh, acos, asin, atan, atan2, erf,
                         bessel_J, conditional, lt, gt, max_value, min_value, FacetNormal, dot, grad)
        from .corpus import space
        m, V = space("triangle", "P", 1)
        u, v = TrialFunction(V), TestFunction(V)
        f, g = Coefficient(V), Coefficient(V)
        k = Constant(m)
        x = SpatialCoordinate(m)
        F = {
            # --- must pass -------------------------------------------------------------------------
            "math_complex": lambda: (sqrt(f) + exp(g) + ln(f) + cos(f) + sin(g) + tan(0.3 * f) + cosh(f) + sinh(g)
                                     + tanh(0.3 * f) + acos(0.2 * f) + asin(0.2 * g) + atan(0.3 * f)) * conj(v) * dx,
            "real_imag_abs": lambda: (real(f) * imag(g) + abs(f) + abs(real(g)) + conj(f) * real(k) + imag(k) * f) * conj(v) * dx,
            # (a non-literal exponent, e.g. f**real(k), hangs in UFL's own apply_algebra_lowering in complex mode)
            "pow_complex_base": lambda: (f**2.5 + f**2 + abs(g)**0.5 + f**(0.5 + 1.5j)) * conj(v) * dx,
            "real_fn_of_geometry": lambda: (exp(x[0]) * sqrt(x[1] * x[1] + 1.0) * f + (x[0] + 2.0)**1.5 * g + atan2(x[0], x[1] + 2.0) * f) * conj(v) * dx,
            "real_fn_of_real_parts": lambda: (atan2(real(f), imag(g) + 3.0) + erf(real(f)) + max_value(real(f), imag(g))
                                              + min_value(real(g), x[0]) + bessel_J(1, real(f))) * f * conj(v) * dx,
            "conditional_real_parts": lambda: conditional(lt(real(f), x[0]), f, conj(g)) * conj(v) * dx
                                              + conditional(gt(imag(g), 0.1), real(f), 2.0) * g * conj(v) * ds,
            "bilinear_mixed": lambda: (real(k) * inner(grad(u), grad(v)) + 1j * imag(f) * inner(u, v) + sqrt(g) * inner(u, v)) * dx
                                      + abs(f) * exp(1j * x[0]) * inner(u, v) * ds,
            # --- formerly emitted as real `pow`: must now be certified and match complex arithmetic --------
            "pow_real_base_complex_exponent": lambda: x[0]**(1 + 2j) * f * conj(v) * dx,
            # --- no complex version: must be REJECTED before any C is emitted -----------------------------
            "atan2_complex_constant": lambda: atan2(x[0], k) * f * conj(v) * dx,
            "erf_complex": lambda: erf(f) * conj(v) * dx,
            "besselj_complex": lambda: bessel_J(1, f) * conj(v) * dx,
            # --- certificate passes (nothing is truncated) but the REAL-table function leaves its real domain -----
            "sqrt_negative_real_geometry": lambda: sqrt(x[0] - 100.0) * f * conj(v) * dx,
        }
        return [F[which]()]
    return b


PROBES_OK = ["math_complex", "real_imag_abs", "pow_complex_base", "real_fn_of_geometry", "real_fn_of_real_parts",
             "conditional_real_parts", "bilinear_mixed"]
# name -> (canonical finding key, one-line description).  All keys stay armed on the repaired tree.
# fixed by /repo c5f832c: the kernel must be certified AND equal complex arithmetic
PROBES_FIXED = {
    "pow_real_base_complex_exponent": (
        "c09:dtype:real-pow-complex-exponent",
        "complex mode: `x[0]**(1+2j)` is emitted as real `pow(x_c0, (1.0+I*2.0))` (table chosen without looking at the "
        "SCALAR exponent): the imaginary part of the exponent is dropped"),
}
# functions without a complex version on a complex argument: the form must be REJECTED (RuntimeError before C is emitted);
# accepted-and-truncating is the violation
PROBES_REJECTED = {
    "atan2_complex_constant": (
        "c09:dtype:atan2-complex-constant",
        "complex mode: `atan2(x[0], k)` with a complex Constant k is accepted and emitted as real `atan2(x_c0, c[0])`: Im(k) is dropped silently"),
    "erf_complex": (
        "c09:dtype:erf-complex-argument",
        "complex mode: `erf(f)` of a complex coefficient is accepted and emitted as real `erf(w0)` (no complex version): Im(f) is dropped (F18)"),
    "besselj_complex": (
        "c09:dtype:bessel-complex-argument",
        "complex mode: `bessel_J(1, f)` of a complex coefficient is accepted and emitted as `jn(1, w0)`: Im(f) is dropped (F18)"),
}
PROBES_TRUNCATING = {**PROBES_FIXED, **PROBES_REJECTED}   # (all forms on which FFCx used to truncate)
# outside the scope of the certificate AND of `dtype_sound` (hypothesis `fn_real_closed`: the real-table function agrees
# with the complex one, i.e. returns a real): REAL operands outside the real domain of sqrt/ln/pow/acos/asin/…
PROBES_DOMAIN = {
    "sqrt_negative_real_geometry": (
        "c09:dtype:real-table-function-outside-real-domain",
        "complex mode: `sqrt(x[0]-100)` of REAL geometry is emitted as real `sqrt` and yields NaN where complex arithmetic "
        "(and UFL's own evaluation) gives i*sqrt(100-x[0]); same for ln/pow/acos/asin/acosh/atanh of REAL operands"),
}


def probe_entries():
    from .corpus import Entry
    return ([Entry("dtype_" + n, _probe(n), tags=("cell", "complex")) for n in PROBES_OK],
            [Entry("dtype_" + n, _probe(n), tags=("cell", "complex")) for n in PROBES_TRUNCATING])


def _imag_insensitive(entry, scalar_type, seed):
    """Secondary witness (no oracle needed): the compiled kernel gives the SAME tensor for the constants c and
    Re c (resp. coefficients w and Re w) although the form depends on their imaginary parts."""
    from . import numeric
    rng = np.random.default_rng(seed)
    objs, cases, comp, mod = numeric.build(entry, {"scalar_type": scalar_type})
    out = []
    for c in cases:
        ko = kernels.compiled_kernel(comp, c)
        inp = numeric.make_data(c, rng, scalar_type, complex_data=True)
        A1 = numeric.call_c(mod, ko, c, inp, scalar_type).copy()
        chg = {}
        for which in ("w", "c"):
            inp2 = dict(inp)
            inp2[which] = np.real(inp[which]) + 0j
            A2 = numeric.call_c(mod, ko, c, inp2, scalar_type).copy()
            chg[which] = float(np.abs(A1 - A2).max()) if inp[which].size else None
        out.append({"kernel": c.name, "max_abs_change_when_w_replaced_by_real_part": chg["w"],
                    "max_abs_change_when_c_replaced_by_real_part": chg["c"],
                    "w": [str(complex(z)) for z in inp["w"][:6]], "c": [str(complex(z)) for z in inp["c"][:4]],
                    "coordinate_dofs": [float(v) for v in inp["coordinate_dofs"]],
                    "A": [str(complex(z)) for z in A1[:3]]})
    return out


_REFUSAL = "is not supported for complex arguments"


def _generates(entry, scalar_type):
    """Run the whole generator incl. the C formatter (no C compiler).  Returns (True, None) or (False, error text)."""
    import ffcx.compiler
    import ffcx.options
    try:
        ffcx.compiler.compile_ufl_objects(entry.build(), options=ffcx.options.get_options({"scalar_type": scalar_type}),
                                          namespace="dtypeprobe")
        return True, None
    except BaseException as ex:
        if isinstance(ex, (KeyboardInterrupt, SystemExit)):
            raise
        return False, f"{type(ex).__name__}: {ex}"


def check_dtype_probes(chk, d, scalar_type="complex128", rejected_types=("complex128", "complex64")):
    from .corpus import Entry
    ok_entries, _ = probe_entries()
    res = {"ok_probes": check_dtype_certificates_quiet(chk, d, ok_entries, scalar_type), "probes": {}}

    def certs(e, st):
        cases = kernels.cases_for_entry(e, pipeline.default_options(scalar_type=st))[0]   # ASTs (the formatter is not run)
        out = []
        for c in cases:
            p = parse_reply(d.ask(f"(dtypecert true {c.ast_sexp})"))
            out.append({"kernel": c.name, "cert": bool(p and p["cert"]), "why": p["why"] if p else "?",
                        "offending_statement": p["bad"] if p else None})
        return out

    # --- fixed: certified and numerically equal to complex arithmetic
    for name, (key, what) in PROBES_FIXED.items():
        e = Entry("dtype_" + name, _probe(name), tags=("cell", "complex"))
        cs = certs(e, scalar_type)
        bad, info = numeric_witness(e, scalar_type, seed=chk.seed)
        chk.case("dtype_probe", f"{name}:{scalar_type}")
        fails = [c for c in cs if not c["cert"]]
        res["probes"][name] = {"certified": not fails, "numeric_bad": len(bad), "maxrel": info.get("maxrel"), "error": info.get("error")}
        if bad:
            chk.violation(key, what, {"entry": name, "scalar_type": scalar_type, **(fails[0] if fails else {}), **bad[0]})
        elif "error" in info:
            chk.violation(key, what + f" — now fails to build: {info['error'][:200]}", {"entry": name, "scalar_type": scalar_type})
        elif fails:
            chk.disagree("dtype certificate fails on a kernel that equals complex arithmetic: " + fails[0]["why"],
                         {"entry": name, "scalar_type": scalar_type, **fails[0]})
    # --- rejected: no C may be emitted; the model must refuse the tree as well
    for name, (key, what) in PROBES_REJECTED.items():
        e = Entry("dtype_" + name, _probe(name), tags=("cell", "complex"))
        for st in rejected_types:
            chk.case("dtype_probe", f"{name}:{st}")
            generated, err = _generates(e, st)
            cs = certs(e, st)
            fails = [c for c in cs if not c["cert"]]
            res["probes"][f"{name}:{st}"] = {"rejected": not generated, "error": err, "model_refuses": bool(fails),
                                             "why": fails[0]["why"] if fails else None}
            if generated:
                # accepted: the imaginary part is dropped in the emitted C — witness numerically / by insensitivity
                payload = {"entry": name, "scalar_type": st, **(fails[0] if fails else {})}
                bad, info = numeric_witness(e, st, seed=chk.seed)
                if bad:
                    payload.update(bad[0])
                else:
                    try:
                        payload["imag_insensitive"] = _imag_insensitive(e, st, chk.seed)
                    except Exception as ex:   # e.g. the emitted C does not even compile
                        payload["imag_insensitive"] = f"{type(ex).__name__}: {str(ex)[:200]}"
                    payload["oracle"] = {k: info.get(k) for k in ("compared", "maxrel", "unsupported", "error")}
                chk.violation(key, what, payload)
            elif _REFUSAL not in (err or ""):
                chk.disagree("probe form is refused, but not by the formatter's complex-argument check", {"entry": name, "scalar_type": st, "error": err})
            if bool(fails) != (not generated):
                chk.disagree("dtype certificate and C formatter disagree on a function without a complex version",
                             {"entry": name, "scalar_type": st, "formatter_rejects": not generated, "certificates": cs})
    # --- known finding: nothing is truncated (certificate passes), the real function leaves its domain
    for name, (key, what) in PROBES_DOMAIN.items():
        e = Entry("dtype_" + name, _probe(name), tags=("cell", "complex"))
        s = check_dtype_certificates(chk, d, [e], (scalar_type,))   # must pass: nothing is truncated
        bad, info = numeric_witness(e, scalar_type, seed=chk.seed)
        chk.case("dtype_probe", f"{name}:{scalar_type}")
        res["probes"][name] = {"certified": not s["failed"], "numeric_bad": len(bad), "maxrel": info.get("maxrel")}
        if bad and not s["failed"]:
            chk.violation(key, what, {"entry": name, "scalar_type": scalar_type, **bad[0]})
    chk.notes["dtype_probes"] = res["probes"]
    return res


def check_dtype_certificates_quiet(chk, d, entries, scalar_type):
    """certificates of probe entries that must pass (a failure is a disagreement + numeric witness search);
    additionally each passing probe is compared numerically on complex data: a certified kernel that differs
    from complex arithmetic would show that the certificate (or the oracle) is wrong."""
    s = check_dtype_certificates(chk, d, entries, (scalar_type,))
    for e in entries:
        bad, info = numeric_witness(e, scalar_type, seed=chk.seed)
        chk.case("dtype_probe_numeric", f"{e.name}:{scalar_type}" if info.get("compared") else None)
        if "error" in info:
            chk.notes.setdefault("dtype_probe_errors", []).append(f"{e.name}: {info['error'][:160]}")
            if _REFUSAL in info["error"]:
                chk.violation(f"c09:{e.name}:{scalar_type}:refused", "a complex-mode form whose math functions all have complex versions is refused "
                              "by the C formatter", {"entry": e.name, "scalar_type": scalar_type, "error": info["error"][:300]})
        for b in bad[:1]:
            chk.violation(f"c09:{e.name}:{scalar_type}", f"{scalar_type} kernel differs from complex arithmetic on complex data (rel {b.get('relerr')})",
                          {"entry": e.name, "scalar_type": scalar_type, **b})
    return {"kernels": s["kernels"], "certified": s["certified"], "failed": s["failed"]}


# ------------------------------------------------------------------------------------------------
class _InterpDriver:
    """Stand-in for lean.Driver while `dtypecert` is not yet wired into Driver.lean."""

    def __init__(self, lean_file):
        import subprocess
        from . import lean
        self.p = subprocess.Popen(["lake", "env", "lean", "--run", str(lean_file)], cwd=lean.LEAN,
                                  stdin=subprocess.PIPE, stdout=subprocess.PIPE, text=True, bufsize=1)

    def ask(self, req):
        from . import sexp
        self.p.stdin.write(req + "\n")
        self.p.stdin.flush()
        line = self.p.stdout.readline()
        if not line:
            raise RuntimeError("interpreter died")
        return sexp.loads(line.rstrip("\n"))

    def close(self):
        try:
            self.p.stdin.close()
            self.p.wait(timeout=10)
        except Exception:
            self.p.kill()


if __name__ == "__main__":  # python -m harness.dtype_checks [scratch-driver.lean] [--seed=N] [--probes] [--table] [--corpus]
    import json
    import sys
    from . import corpus, lean

    class _Chk:
        seed = 0

        def __init__(self):
            self.notes, self.samples, self.cases, self.bad, self.viol, self.keys = {}, [], 0, [], [], set()

        def case(self, kind, key=None, sample=None, n=1):
            self.cases += 1
            if key:
                self.keys.add(key)
            if sample:
                self.samples.append(sample)

        def disagree(self, what, payload):
            self.bad.append((what, payload))
            print("DISAGREE", what, json.dumps(payload, default=str)[:700])

        def violation(self, key, what, payload):
            self.viol.append(key)
            print("VIOLATION", key, what, json.dumps(payload, default=str)[:900])

    chk = _Chk()
    files = [a for a in sys.argv[1:] if not a.startswith("--")]
    for a in sys.argv[1:]:
        if a.startswith("--seed="):
            chk.seed = int(a.split("=", 1)[1])
    flags = {a for a in sys.argv[1:] if a.startswith("--") and not a.startswith("--seed=")} or {"--probes", "--table", "--corpus"}
    d = _InterpDriver(files[0]) if files else lean.Driver("driver")
    try:
        if "--table" in flags:
            rows = check_math_table(chk, d)
            print("math table rows:", len(rows), "refused:", len(chk.notes["dtype_math_table_refused_in_complex_mode"]),
                  "wider:", chk.notes["dtype_math_table_wider_precision"])
        if "--corpus" in flags:
            ents = corpus.fixed() + corpus.expressions() + corpus.complex_forms()
            s = check_dtype_certificates(chk, d, ents, ("complex128", "float64"))
            print(json.dumps({k: v for k, v in s.items() if k != "strict_on_real"}, indent=1)[:3000])
            print("real kernels failing the strict certificate:", json.dumps(s["strict_on_real"], indent=1)[:2000])
        if "--probes" in flags:
            print(json.dumps(check_dtype_probes(chk, d), indent=1, default=str))
    finally:
        d.close()
    print("cases:", chk.cases, "distinct:", len(chk.keys), "disagreements:", len(chk.bad), "violations:", chk.viol)
