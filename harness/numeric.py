"""Differential engine: compiled C kernels vs the independent oracle, run in forked workers.

`compare_entry(entry, options, seed, …)` compiles one corpus entry with the given options, calls
every kernel on seeded random data (random non-degenerate geometry, coefficients, constants, every
or sampled local entity index, permutation code 0) and compares with harness.oracle.
Returns a JSON-able dict; never raises for oracle-unsupported constructs (they are counted).
"""
import traceback

import numpy as np
import ufl
import ufl.algorithms.check_arities

from . import cjit, kernels, oracle, pipeline

_NP = {"float64": np.float64, "float32": np.float32, "complex128": np.complex128, "complex64": np.complex64}
_REAL = {"float64": np.float64, "float32": np.float32, "complex128": np.float64, "complex64": np.float32}
_TOL = {"float64": 1e-10, "complex128": 1e-10, "float32": 2e-4, "complex64": 2e-4}


def make_data(case, rng, scalar_type="float64", entity=None, perm=None, complex_data=False):
    inp = kernels.random_inputs(case, rng, A0="zeros", entity=entity, perm=perm, dyadic=False)
    if scalar_type.startswith("complex") and complex_data:
        inp["w"] = inp["w"] + 1j * rng.uniform(-1, 1, size=inp["w"].shape)
        inp["c"] = inp["c"] + 1j * rng.uniform(-1, 1, size=inp["c"].shape)
    return inp


def call_c(mod, ko, case, inp, scalar_type):
    st, rt = _NP[scalar_type], _REAL[scalar_type]
    pad = lambda a: np.concatenate([a, [0.0]]) if a.size == 0 else a
    A = np.zeros(max(case.sizes["A"], 1), dtype=st)
    w = pad(np.asarray(inp["w"])).astype(st)
    c = pad(np.asarray(inp["c"])).astype(st)
    x = np.asarray(inp["coordinate_dofs"]).astype(rt)
    ent = list(inp["entity_local_index"]) or [0]
    prm = list(inp["quadrature_permutation"]) or [0]
    pipeline.call_kernel(mod, ko, scalar_type, A, w, c, x, ent, prm)
    return A[:case.sizes["A"]] if case.sizes["A"] else A[:1]


def oracle_value(oras, case, inp, scalar_type="float64"):
    ent = list(inp["entity_local_index"]) or [0]
    if case.kind == "expression":
        prm = list(inp["quadrature_permutation"]) or [0]
        return oras["expr"][case.extra["expr_index"]].tabulate(inp["w"], inp["c"], inp["coordinate_dofs"], ent[0], prm[0])
    fo = oras["forms"][case.extra["form_index"]]
    return fo.tabulate(case.extra["itg_index"], inp["w"], inp["c"], inp["coordinate_dofs"], ent)


def build(entry, options=None):
    """(objs, cases, compiled, module) for an entry under the given options."""
    options = {**getattr(entry, "options", {}), **dict(options or {})}
    full = pipeline.default_options(**options)
    objs = entry.build()
    tag = "_".join(f"{k}={v}" for k, v in sorted(options.items())) or "default"
    cd = cjit.cache_dir(tag.replace("/", "_")[:60])
    if entry.kind == "expression":
        cases, _, _ = kernels.cases_for_expressions(entry.name, objs, full)
        comp, mod, _ = pipeline.jit_expressions(objs, cd, options)
    else:
        cases, _, _ = kernels.cases_for_forms(entry.name, objs, full)
        comp, mod, _ = pipeline.jit_forms(objs, cd, options)
    return objs, cases, comp, mod


def oracles_for(entry, objs, complex_mode=False, diagonal=False):
    if entry.kind == "expression":
        return {"expr": [oracle.ExpressionOracle(e, p, complex_mode) for e, p in objs]}
    return {"forms": [oracle.FormOracle(f, complex_mode, diagonal) for f in objs]}


def entity_choices(case, rng, all_entities):
    ne = case.sizes["entity_local_index"]
    if ne == 0:
        return [None]
    ents = case.extra.get("entities") or list(range(max(case.n_entities, 1)))
    if ne == 1:
        return [(e,) for e in ents] if all_entities else [(int(rng.choice(ents)),)]
    pairs = [(a, b) for a in ents for b in ents]
    if all_entities:
        return pairs
    idx = rng.choice(len(pairs), size=min(3, len(pairs)), replace=False)
    return [pairs[i] for i in idx]


def compare_entry(entry, options=None, seed=0, reps=1, all_entities=False, kinds=None, complex_data=False, all_perms=False):
    out = {"name": entry.name, "cases": 0, "compared": 0, "unsupported": [], "bad": [], "maxrel": 0.0, "types": {}}
    try:
        options = {**getattr(entry, "options", {}), **dict(options or {})}
        st = str(options.get("scalar_type", "float64"))
        objs, cases, comp, mod = build(entry, options)
        oras = oracles_for(entry, objs, complex_mode=st.startswith("complex"), diagonal=options.get("part") == "diagonal")
        rng = np.random.default_rng(seed)
        for c in cases:
            if kinds and c.integral_type not in kinds:
                continue
            out["cases"] += 1
            out["types"][c.integral_type] = out["types"].get(c.integral_type, 0) + 1
            try:
                ko = kernels.compiled_kernel(comp, c)
            except LookupError as ex:
                out["bad"].append({"kernel": c.name, "what": f"descriptor lookup: {ex}"})
                continue
            # permutation codes: expressions only (the form oracle integrates, which is invariant: C03)
            perms = [0]
            if all_perms and c.kind == "expression" and c.sizes["quadrature_permutation"] == 1:
                perms = list(range(max(c.n_perms, 1)))
            for ent, pc in [(e_, p_) for e_ in entity_choices(c, rng, all_entities) for p_ in perms]:
                for _ in range(reps):
                    inp = make_data(c, rng, st, entity=ent, perm=[pc] * c.sizes["quadrature_permutation"], complex_data=complex_data)
                    try:
                        B = oracle_value(oras, c, inp, st)
                    except oracle.OracleUnsupported as ex:
                        out["unsupported"].append(f"{c.name}: {ex}")
                        break
                    A = call_c(mod, ko, c, inp, st)
                    # entries where the ORACLE is not finite (a math function outside its domain on this random data) carry no
                    # information: the kernel must be non-finite there too, the comparison runs on the remaining entries
                    fin = np.isfinite(B)
                    if B.size and not fin.all():
                        out["nonfinite_oracle"] = out.get("nonfinite_oracle", 0) + 1
                        if np.isfinite(A[~fin]).any() and fin.any():
                            pass  # finite where the oracle is not: reported below through the finite part only if it differs
                        if not fin.any():
                            continue
                        A, B = np.where(fin, A, 0), np.where(fin, B, 0)
                    scale = max(1.0, float(np.abs(B).max()) if B.size else 1.0)
                    err = float(np.abs(A - B).max() / scale) if B.size else 0.0
                    out["compared"] += 1
                    out["maxrel"] = max(out["maxrel"], err)
                    if not (err <= _TOL[st]) or not np.all(np.isfinite(A)):
                        k = int(np.argmax(np.abs(A - B))) if B.size else 0
                        out["bad"].append({
                            "kernel": c.name, "integral_type": c.integral_type, "relerr": err, "entity": ent, "permutation": pc,
                            "entry_index": k, "c_value": str(A[k]), "oracle_value": str(B[k]),
                            "w": [float(np.real(v)) for v in inp["w"][:24]], "c": [float(np.real(v)) for v in inp["c"][:12]],
                            "coordinate_dofs": [float(v) for v in inp["coordinate_dofs"]],
                        })
                        break
    except (Exception, ufl.algorithms.check_arities.ArityMismatch) as ex:
        out["error"] = f"{type(ex).__name__}: {ex}"
        out["trace"] = traceback.format_exc()[-1200:]
    return out
