"""Backend-descriptor cluster (C18, descriptor half): ties the Lean transcriptions of the two backends'
descriptor generators (lean/FfcxModel/Backend/Descriptors.lean) to the real code.

    C side      ffcx/codegeneration/C/{form,integral,expression}.py        -> `C.form`, `C.integral`, `C.expression`
    numba side  ffcx/codegeneration/numba/{form,integral,expression}.py    -> `Numba.form`, `Numba.integral`, `Numba.expression`
    shared      ffcx/codegeneration/common.py integral_data                -> `integralData`

Public entry points

    DESCR_MODULE, DESCR_THEOREMS, DESCR_FILES      Lean obligations (chk.lean(DESCR_MODULE, DESCR_THEOREMS, extra_files=DESCR_FILES))
    check_descriptors(chk, d, entries)             correspondence on real IRs + seeded synthetic IRs + probes;
                                                   `d` is an open `lean.Driver("driver_descr")`
    python -m harness.descr_checks                 stand-alone runner (never writes evidence files)

What is compared, for every form / integral×domain / expression of every entry:

    model `C.*`       vs  the initialisers PARSED from the text the real C generator returns (values, NULL-ness,
                          declared array sizes vs `C.formDecls`)
    model `C.storeForm ∘ C.form` (and C.integral / C.expression)
                      vs  the struct fields READ BACK THROUGH CFFI from the JIT-compiled module
    model `Numba.*`   vs  the class attributes of the exec'ed module the real numba generators produce
                          (values, None-ness, list-ness)

A difference is `chk.disagree` (model ≠ implementation).  The agreement C ↔ numba itself is the theorem
(FfcxProofs/C18Descr.lean); `formagree` additionally evaluates it on every exported IR.

Independently of the model, the property's own oracle (`real_diff`) compares the REAL C descriptor (text and cffi)
with the REAL numba descriptor of every object: a difference is a failing input -> `chk.violation`
(`c18:descriptor:<kind>:<field>[:synthetic]`).  At level 2 (compiled struct) the oracle only judges IRs FFCx can
produce: `_compute_form_ir` rejects subdomain ids outside [-1, 2**31-1] (fix 9a772cd of the finding
`c18:descriptor:form_integral_ids:int32-overflow`, see FIXED); synthetic FormIRs with such ids remain correspondence
inputs of `C.storeForm` only.  The key stays armed through the real pipeline (`probe_int_range`): boundary forms
(ids 2**31-1, 0 accepted; 2**31, 2**31+5, (1, 2**31), 2**32+3, -1, -2 rejected) must be accepted by the real
`_compute_form_ir` exactly when the model's guard (`formIRIntegrals`, lemma `formIR_idsFit`) accepts them, with the
same message, and every accepted one is JIT-compiled and compared with the numba class.  The same loop model is
compared with the three dictionaries of every corpus FormIR, and `idsFit` is evaluated on each of them.

Synthetic inputs: hand-built `FormIR` tuples (many domains per integral, empty integral types, zero coefficients,
duplicate/unsorted/huge ids, None hashes, inconsistent records on which both generators fail) through
`ffcx.codegeneration.{C,numba}.form.generator` directly, all accepted ones compiled into ONE cffi module (integrals
stubbed) and read back; real IntegralIR / ExpressionIR tuples with the descriptor fields replaced, for the four
scalar types and both values of `sys.platform.startswith("win32")`.
"""
import random
import re
import shutil
import sys
import tempfile
import types
import warnings
from pathlib import Path

import basix
import numpy as np

from . import cjit, corpus, lean, pipeline, sexp

LEAN = Path(__file__).resolve().parent.parent / "lean"
DESCR_MODULE = "FfcxProofs.C18Descr"
DESCR_FILES = [LEAN / "FfcxModel/Backend/Descriptors.lean", LEAN / "FfcxProofs/Lemmas/Descr.lean",
               LEAN / "FfcxModel/Driver/Descr.lean", LEAN / "DriverDescr.lean"]
DESCR_THEOREMS = [
    "Ffcx.C18Descr.form_same_encoding",
    "Ffcx.C18Descr.form_descriptors_agree",
    "Ffcx.C18Descr.form_table_parallel",
    "Ffcx.C18Descr.form_decls_exact",
    "Ffcx.C18Descr.formIR_idsFit",
    "Ffcx.C18Descr.formIR_guard_examples",
    "Ffcx.C18Descr.form_descriptors_agree_compiled",
    "Ffcx.C18Descr.form_descriptors_partial",
    "Ffcx.C18Descr.form_descriptors_counterexample",
    "Ffcx.C18Descr.seeded_m2_detected",
    "Ffcx.C18Descr.seeded_m2_invisible",
    "Ffcx.C18Descr.integral_descriptors_agree",
    "Ffcx.C18Descr.c_integral_slot",
    "Ffcx.C18Descr.integral_encoding_differs",
    "Ffcx.C18Descr.expression_descriptors_partial",
    "Ffcx.C18Descr.expression_descriptors_counterexample",
    "Ffcx.C18Descr.prelude_integral_types_partial",
    "Ffcx.C18Descr.prelude_integral_types_counterexample",
    "Ffcx.C18Descr.prelude_cell_tags_counterexample",
]

TYPES = ("cell", "exterior_facet", "interior_facet", "vertex", "ridge")
SCALARS = ("float32", "float64", "complex64", "complex128")
KEY_INT32 = "c18:descriptor:form_integral_ids:int32-overflow"
# findings of this cluster that were repaired in /repo (key -> fix commit); the keys stay armed
FIXED = {KEY_INT32: "9a772cd"}  # fix: reject subdomain ids that do not fit ufcx_form.form_integral_ids
ID_MIN, ID_MAX = -1, 2**31 - 1  # the ids `_compute_form_ir` lets through (model: `idFits`)
Q = sexp.q


# ============================================================================ export: IR -> request text
class NotExportable(Exception):
    """the IR holds a value outside the types of the Lean IR records"""


def _int(x, what):
    if isinstance(x, (bool, np.bool_)) or not isinstance(x, (int, np.integer)):
        raise NotExportable(f"{what}: {x!r} is not an int")
    return int(x)


def _nat(x, what):
    v = _int(x, what)
    if v < 0:
        raise NotExportable(f"{what}: {x!r} is negative")
    return v


def _hash(x, what):
    if x is None:
        return "none"
    v = _nat(x, what)
    return str(v)


def sx(x):
    if isinstance(x, (list, tuple)):
        return "(" + " ".join(sx(y) for y in x) + ")"
    if isinstance(x, (bool, np.bool_)):
        return "true" if x else "false"
    return str(x)


def _dom(d):
    return [Q(d.name), int(d)]


def export_form(fir, types=TYPES):
    """(argsort table text, formir text).  The argsort table holds NumPy's actual permutations."""
    table = []
    tys = []
    for t in types:
        ids = [_int(i, f"subdomain_ids[{t}]") for i in fir.subdomain_ids[t]]
        perm = [int(i) for i in np.argsort(fir.subdomain_ids[t])]
        if [ids, perm] not in table:
            table.append([ids, perm])
        names = [Q(str(n)) for n in fir.integral_names[t]]
        doms = [[_dom(d) for d in ds] for ds in fir.integral_domains[t]]
        tys.append([ids, names, doms])
    ir = [Q(fir.name), Q(fir.name_from_uflfile), Q(fir.signature), _int(fir.rank, "rank"),
          _int(fir.num_coefficients, "num_coefficients"),
          [_int(i, "original_coefficient_positions") for i in fir.original_coefficient_positions],
          [Q(str(n)) for n in fir.coefficient_names], _int(fir.num_constants, "num_constants"),
          [_int(i, "constant_ranks") for i in fir.constant_ranks],
          [[_int(i, "constant_shapes") for i in s] for s in fir.constant_shapes],
          [Q(str(n)) for n in fir.constant_names],
          [_hash(h, "finite_element_hashes") for h in fir.finite_element_hashes], tys]
    return sx(table), sx(ir)


def export_itgs(fd, iirs, sort_domains=True):
    """the input of the id/name/domain loop of `_compute_form_ir` for one form: UFL's integral data + the names and
    domain sets of its IntegralIRs (`iirs` may be None when the IR could not be built: placeholders)"""
    out = []
    for k, itg in enumerate(fd.integral_data):
        sids = ["otherwise" if sid == "otherwise" else _int(sid, "subdomain_id") for sid in itg.subdomain_id]
        if iirs is not None:
            nm = iirs[k].expression.name
            doms = sorted({key[0] for key in iirs[k].expression.integrand.keys()}, key=int)
        else:
            nm, doms = f"itg{k}", []
        out.append([TYPES.index(itg.integral_type), sids, Q(nm), [_dom(x) for x in doms]])
    return sx(out)


def groups_of(fir):
    """the three dictionaries of a FormIR as the model prints them (domain sets sorted by tag)"""
    return [[[int(i) for i in fir.subdomain_ids[t]], [str(n) for n in fir.integral_names[t]],
             [[[x.name, int(x)] for x in sorted(ds, key=int)] for ds in fir.integral_domains[t]]] for t in TYPES]


def parse_groups(r):
    if r[0] != "ok":
        return ("error", r[1] if len(r) > 1 else "")
    return [[[int(i) for i in t[0]], list(t[1]), [[[x[0], int(x[1])] for x in ds] for ds in t[2]]] for t in r[1]]


def export_integral(iir, domain):
    ir = [Q(iir.expression.name), [bool(b) for b in iir.enabled_coefficients], bool(iir.expression.needs_facet_permutations),
          _hash(iir.expression.coordinate_element_hash, "coordinate_element_hash")]
    for b in iir.enabled_coefficients:
        if not isinstance(b, (bool, np.bool_, int, np.integer)):
            raise NotExportable(f"enabled_coefficients entry {b!r}")
    return sx(ir), sx(_dom(domain))


def export_expression(eir):
    pts = []
    for key in eir.expression.integrand:
        p = key[1].points
        pts.append([int(p.shape[0]), int(p.shape[1]), [Q(str(v)) for v in p.flatten()]])
    ir = [Q(eir.expression.name), Q(eir.name_from_uflfile), pts,
          [_int(i, "original_coefficient_positions") for i in eir.original_coefficient_positions],
          [_int(i, "shape") for i in eir.expression.shape], len(eir.expression.coefficient_numbering),
          [Q(str(n)) for n in eir.coefficient_names], [Q(str(n)) for n in eir.constant_names],
          [_int(i, "tensor_shape") for i in eir.expression.tensor_shape],
          _hash(eir.expression.coordinate_element_hash, "coordinate_element_hash")]
    return sx(ir)


# ============================================================================ replies -> python
def _enc(x, conv):
    if x == "none":
        return None
    assert x[0] == "arr", x
    return [conv(v) for v in x[1:]]


def _b(a):
    return a == "true"


def _slots(x):
    return [(s[0], s[1], s[2] if len(s) > 2 else None) for s in x]


def parse_form_reply(r):
    if r[0] != "ok":
        return ("error", r[1] if len(r) > 1 else "")
    f = r[1]
    return {"factory": f[0], "alias": f[1], "signature": f[2], "rank": int(f[3]), "num_coefficients": int(f[4]),
            "original_coefficient_positions": _enc(f[5], int), "coefficient_name_map": _enc(f[6], str),
            "num_constants": int(f[7]), "constant_ranks": _enc(f[8], int),
            "constant_shapes": _enc(f[9], lambda s: _enc(s, int)), "constant_name_map": _enc(f[10], str),
            "finite_element_hashes": _enc(f[11], int), "form_integrals": _enc(f[12], str),
            "form_integral_ids": _enc(f[13], int), "form_integral_offsets": [int(v) for v in f[14]]}


def parse_integral_reply(r):
    if r[0] != "ok":
        return ("error", r[1] if len(r) > 1 else "")
    f = r[1]
    return {"factory": f[0], "enabled_coefficients": _enc(f[1], _b), "needs_facet_permutations": _b(f[2]),
            "coordinate_element_hash": int(f[3]), "domain": int(f[4]), "kernels": _slots(f[5])}


def parse_expr_reply(r):
    if r[0] != "ok":
        return ("error", r[1] if len(r) > 1 else "")
    f = r[1]
    return {"factory": f[0], "alias": f[1], "kernels": _slots(f[2]), "num_coefficients": int(f[3]), "num_constants": int(f[4]),
            "original_coefficient_positions": _enc(f[5], int), "coefficient_names": _enc(f[6], str),
            "constant_names": _enc(f[7], str), "num_points": int(f[8]), "entity_dimension": int(f[9]),
            "points": _enc(f[10], str), "value_shape": _enc(f[11], int), "num_components": int(f[12]), "rank": int(f[13]),
            "coordinate_element_hash": None if f[14] == "none" else int(f[14])}


# ============================================================================ real C side: parse the generated text
class Undeclared(Exception):
    pass


def _split_init(body):
    """split the inside of `{…}` at top-level commas (string literals respected); trailing comma allowed"""
    out, cur, instr, esc = [], [], False, False
    for ch in body:
        if instr:
            cur.append(ch)
            if esc:
                esc = False
            elif ch == "\\":
                esc = True
            elif ch == '"':
                instr = False
        elif ch == '"':
            instr = True
            cur.append(ch)
        elif ch == ",":
            out.append("".join(cur).strip())
            cur = []
        else:
            cur.append(ch)
    out.append("".join(cur).strip())
    return [v for v in out if v != ""]


def _c_array(text, name):
    """(declared size, [initialiser text…]) of the array definition `… name[size] = {…};`"""
    m = re.search(r"\b%s\[(-?\d+)\]\s*=\s*\{(.*?)\};" % re.escape(name), text, re.S)
    if m is None:
        raise Undeclared(name)
    return int(m.group(1)), _split_init(m.group(2))


def _c_struct(text, ctype, name):
    m = re.search(r"^%s\s+%s\s*=\s*\{(.*?)^\};" % (re.escape(ctype), re.escape(name)), text, re.S | re.M)
    if m is None:
        raise ValueError(f"no `{ctype} {name} = {{…}};` in the generated text")
    fields = {}
    for line in m.group(1).splitlines():
        mm = re.match(r"\s*\.(\w+)\s*=\s*(.*?),?\s*$", line)
        if mm:
            fields[mm.group(1)] = mm.group(2)
    return fields


def _cstr(v):
    assert v.startswith('"') and v.endswith('"'), v
    return v[1:-1]


def _u64(v):
    m = re.fullmatch(r"UINT64_C\((-?\d+)\)", v)
    if m is None:
        raise Undeclared(f"not a uint64 literal: {v}")
    return int(m.group(1))


def _cptr(text, v, conv, decls=None):
    """value of a pointer member: NULL or the named array"""
    if v == "NULL":
        return None
    size, vals = _c_array(text, v)
    if decls is not None:
        decls.append((v, size, len(vals)))
    return [conv(x) for x in vals]


def parse_c_form(text, name):
    """level-1 descriptor (written values) + array declarations of the text of `C/form.py generator`"""
    try:
        f = _c_struct(text, "ufcx_form", name)
        decls = []
        d = {"factory": name}
        m = re.search(r"^ufcx_form\*\s+(\w+)\s*=\s*&(\w+);", text, re.M)
        d["alias"] = m.group(1) if m and m.group(2) == name else "<no alias>"
        d["signature"] = _cstr(f["signature"])
        for k in ("rank", "num_coefficients", "num_constants"):
            d[k] = int(f[k])
        d["original_coefficient_positions"] = _cptr(text, f["original_coefficient_positions"], int, decls)
        d["coefficient_name_map"] = _cptr(text, f["coefficient_name_map"], _cstr, decls)
        d["constant_ranks"] = _cptr(text, f["constant_ranks"], int, decls)
        sh = _cptr(text, f["constant_shapes"], str, None)
        if sh is not None:
            rows = []
            for v in sh:
                rows.append(_cptr(text, v, int, decls))
            size, vals = _c_array(text, f["constant_shapes"])
            decls.append((f["constant_shapes"], size, len(vals)))
            d["constant_shapes"] = rows
        else:
            d["constant_shapes"] = None
        d["constant_name_map"] = _cptr(text, f["constant_name_map"], _cstr, decls)
        d["finite_element_hashes"] = _cptr(text, f["finite_element_hashes"], _u64, decls)
        d["form_integrals"] = _cptr(text, f["form_integrals"], lambda v: v[1:] if v.startswith("&") else "<not an address> " + v, decls)
        d["form_integral_ids"] = _cptr(text, f["form_integral_ids"], int, decls)
        d["form_integral_offsets"] = _cptr(text, f["form_integral_offsets"], int, decls)
        # every array definition of the text (also the ones no member points to)
        alld = [(m.group(1), int(m.group(2)), len(_split_init(m.group(3))))
                for m in re.finditer(r"\b(\w+)\[(-?\d+)\]\s*=\s*\{(.*?)\};", text, re.S)]
        return d, sorted(alld)
    except Undeclared as ex:
        return ("error", f"undeclared {ex}"), []


def _c_kernels(f):
    out = []
    for k in SCALARS:
        key = f"tabulate_tensor_{k}"
        if key not in f:
            out.append((key, "omitted", None))
        elif f[key] == "NULL":
            out.append((key, "null", None))
        else:
            out.append((key, "fn", f[key]))
    return out


def parse_c_integral(text, name):
    try:
        f = _c_struct(text, "ufcx_integral", name)
        return {"factory": name, "enabled_coefficients": _cptr(text, f["enabled_coefficients"], lambda v: {"1": True, "0": False}[v]),
                "needs_facet_permutations": {"true": True, "false": False}[f["needs_facet_permutations"]],
                "coordinate_element_hash": _u64(f["coordinate_element_hash"]), "domain": int(f["domain"]), "kernels": _c_kernels(f)}
    except Undeclared as ex:
        return ("error", f"undeclared {ex}")


def parse_c_expression(text, name):
    try:
        f = _c_struct(text, "ufcx_expression", name)
        m = re.search(r"^ufcx_expression\*\s+(\w+)\s*=\s*&(\w+);", text, re.M)
        kern = []
        for k in SCALARS:  # members the designated initialiser does not name are zero
            key = f"tabulate_tensor_{k}"
            kern.append((key, "fn", f[key]) if key in f and f[key] != "NULL" else (key, "null", None))
        return {"factory": name, "alias": m.group(1) if m and m.group(2) == name else "<no alias>", "kernels": kern,
                "num_coefficients": int(f["num_coefficients"]), "num_constants": int(f["num_constants"]),
                "original_coefficient_positions": _cptr(text, f["original_coefficient_positions"], int),
                "coefficient_names": _cptr(text, f["coefficient_names"], _cstr), "constant_names": _cptr(text, f["constant_names"], _cstr),
                "num_points": int(f["num_points"]), "entity_dimension": int(f["entity_dimension"]),
                "points": _cptr(text, f["points"], str), "value_shape": _cptr(text, f["value_shape"], int),
                "num_components": int(f["num_components"]), "rank": int(f["rank"]),
                "coordinate_element_hash": _u64(f["coordinate_element_hash"])}
    except Undeclared as ex:
        return ("error", f"undeclared {ex}")


# ============================================================================ real C side: read the compiled struct
def _rd(ffi, ptr, n, conv):
    return None if ptr == ffi.NULL else [conv(ptr[i]) for i in range(n)]


def read_cffi_integral(ffi, itg, ncoef):
    kern = []
    for k in SCALARS:
        key = f"tabulate_tensor_{k}"
        kern.append((key, "null" if getattr(itg, key) == ffi.NULL else "fn", None))
    return {"enabled_coefficients": _rd(ffi, itg.enabled_coefficients, ncoef, bool),
            "needs_facet_permutations": bool(itg.needs_facet_permutations),
            "coordinate_element_hash": int(itg.coordinate_element_hash), "domain": int(itg.domain), "kernels": kern}


def read_cffi_form(ffi, f, fir, ntab, ntypes=len(TYPES)):
    """the struct members, array lengths taken from the IR (a pointer carries none)"""
    s = lambda p: ffi.string(p).decode()  # noqa: E731
    nco, nk = len(fir.original_coefficient_positions), max(int(fir.num_constants), 0)
    d = {"signature": s(f.signature), "rank": int(f.rank), "num_coefficients": int(f.num_coefficients),
         "num_constants": int(f.num_constants),
         "original_coefficient_positions": _rd(ffi, f.original_coefficient_positions, nco, int),
         "coefficient_name_map": _rd(ffi, f.coefficient_name_map, len(fir.coefficient_names), s),
         "constant_ranks": _rd(ffi, f.constant_ranks, nk, int),
         "constant_name_map": _rd(ffi, f.constant_name_map, len(fir.constant_names), s),
         "finite_element_hashes": _rd(ffi, f.finite_element_hashes, len(fir.finite_element_hashes), int),
         "form_integral_ids": _rd(ffi, f.form_integral_ids, ntab, int),
         "form_integral_offsets": _rd(ffi, f.form_integral_offsets, ntypes + 1, int)}
    if f.constant_shapes == ffi.NULL:
        d["constant_shapes"] = None
    else:
        d["constant_shapes"] = [None if f.constant_shapes[i] == ffi.NULL else
                                [int(f.constant_shapes[i][j]) for j in range(len(fir.constant_shapes[i]))] for i in range(nk)]
    d["rows"] = None if f.form_integrals == ffi.NULL else [f.form_integrals[i] for i in range(ntab)]
    return d


def read_cffi_expression(ffi, e, eir):
    s = lambda p: ffi.string(p).decode()  # noqa: E731
    pts = next(iter(eir.expression.integrand))[1].points
    kern = [(f"tabulate_tensor_{k}", "null" if getattr(e, f"tabulate_tensor_{k}") == ffi.NULL else "fn", None) for k in SCALARS]
    return {"kernels": kern, "num_coefficients": int(e.num_coefficients), "num_constants": int(e.num_constants),
            "original_coefficient_positions": _rd(ffi, e.original_coefficient_positions, len(eir.original_coefficient_positions), int),
            "coefficient_names": _rd(ffi, e.coefficient_names, len(eir.coefficient_names), s),
            "constant_names": _rd(ffi, e.constant_names, len(eir.constant_names), s),
            "num_points": int(e.num_points), "entity_dimension": int(e.entity_dimension),
            "points": _rd(ffi, e.points, int(pts.size), float), "value_shape": _rd(ffi, e.value_shape, len(eir.expression.shape), int),
            "num_components": int(e.num_components), "rank": int(e.rank), "coordinate_element_hash": int(e.coordinate_element_hash)}


# ============================================================================ real numba side
def load_numba(src, stubs=()):
    """exec a generated numba module (numba.carray is never called here); `stubs`: names to pre-bind to
    empty classes (integral classes a hand-built FormIR refers to)."""
    ns = {"__name__": "ffcx_numba_generated"}
    for n in stubs:
        ns[n] = type(n, (), {})
    fake = types.ModuleType("numba")
    fake.carray = lambda buf, shape: buf
    saved = sys.modules.get("numba")
    sys.modules["numba"] = fake
    try:
        exec(compile(src, "<ffcx numba>", "exec"), ns)
    finally:
        if saved is not None:
            sys.modules["numba"] = saved
        else:
            sys.modules.pop("numba", None)
    return ns


def _lst(v, conv=lambda x: x):
    if v is None:
        return None
    if not isinstance(v, list):
        return ("not-a-list", repr(v)[:80])
    return [conv(x) for x in v]


def _pyint(x):
    return x if isinstance(x, int) and not isinstance(x, bool) else ("not-an-int", repr(x))


def read_numba_form(ns, name, alias):
    c = ns[name]
    return {"factory": c.__name__, "alias": alias if ns.get(alias) is c else "<no alias>", "signature": c.signature,
            "rank": _pyint(c.rank), "num_coefficients": _pyint(c.num_coefficients), "num_constants": _pyint(c.num_constants),
            "original_coefficient_positions": _lst(c.original_coefficient_positions, _pyint),
            "coefficient_name_map": _lst(c.coefficient_name_map), "constant_ranks": _lst(c.constant_ranks, _pyint),
            "constant_shapes": _lst(c.constant_shapes, lambda s: _lst(s, _pyint)), "constant_name_map": _lst(c.constant_name_map),
            "finite_element_hashes": _lst(c.finite_element_hashes, _pyint),
            "form_integrals": _lst(c.form_integrals, lambda k: getattr(k, "__name__", repr(k))),
            "form_integral_ids": _lst(c.form_integral_ids, _pyint), "form_integral_offsets": _lst(c.form_integral_offsets, _pyint)}


def read_numba_integral(ns, name):
    c = ns[name]
    fn = c.__dict__["tabulate_tensor"]
    return {"factory": c.__name__, "enabled_coefficients": _lst(c.enabled_coefficients, lambda v: {1: True, 0: False}.get(v, ("not-0/1", v)) if isinstance(v, int) and not isinstance(v, bool) else ("not-0/1", repr(v))),
            "needs_facet_permutations": c.needs_facet_permutations, "coordinate_element_hash": c.coordinate_element_hash,
            "domain": _pyint(c.domain), "kernels": [("tabulate_tensor", "fn", getattr(fn, "__name__", repr(fn)))]}


def read_numba_expression(ns, name, alias):
    c = ns[name]
    fn = c.__dict__["tabulate_tensor"]
    return {"factory": c.__name__, "alias": alias if ns.get(alias) is c else "<no alias>",
            "kernels": [("tabulate_tensor", "fn", getattr(fn, "__name__", repr(fn)))],
            "num_coefficients": _pyint(c.num_coefficients), "num_constants": _pyint(c.num_constants),
            "original_coefficient_positions": _lst(c.original_coefficient_positions, _pyint),
            "coefficient_names": _lst(c.coefficient_names), "constant_names": _lst(c.constant_names),
            "num_points": _pyint(c.num_points), "entity_dimension": _pyint(c.entity_dimension), "points": _lst(c.points),
            "value_shape": _lst(c.value_shape, _pyint), "num_components": _pyint(c.num_components), "rank": _pyint(c.rank),
            "coordinate_element_hash": c.coordinate_element_hash}


# ============================================================================ comparison helpers
def _diff(model, impl, skip=()):
    if isinstance(model, tuple) or isinstance(impl, tuple):  # error on either side: compare error-ness only
        me, ie = isinstance(model, tuple), isinstance(impl, tuple)
        return {} if me and ie else {"<result>": {"model": model if me else "ok", "impl": impl if ie else "ok"}}
    out = {}
    for k, v in model.items():
        if k in skip or k not in impl:
            continue
        if impl[k] != v:
            out[k] = {"model": v, "impl": impl[k]}
    return out


def _points_equal(lits, vals):
    """the literals the model passed through denote the doubles read back"""
    if lits is None or vals is None:
        return lits is None and vals is None
    return len(lits) == len(vals) and all(float(a) == b and isinstance(b, float) for a, b in zip(lits, vals))


def _kern_nullness(k):
    return [(n, "fn" if s == "fn" else "null") for n, s, _ in k]


def real_diff(c, nb):
    """The property's own oracle, independent of the model: fields of the two REAL descriptors (C: parsed text or
    struct read through cffi; numba: class attributes) that a consumer reads differently.  NULL, None and [] all
    offer no entries; kernel slots are compared through the callable functions; point literals as doubles."""
    if isinstance(c, tuple) or isinstance(nb, tuple):
        return {} if isinstance(c, tuple) and isinstance(nb, tuple) else {"<result>": {"C": c if isinstance(c, tuple) else "ok", "numba": nb if isinstance(nb, tuple) else "ok"}}

    def norm(v):
        return [] if v is None else v

    out = {}
    for k, a in c.items():
        if k not in nb or k == "rows":
            continue
        b = nb[k]
        if k == "kernels":
            fa, fb = [f for _, s_, f in a if s_ == "fn"], [f for _, s_, f in b if s_ == "fn"]
            same = (len(fa) == len(fb)) if None in fa else fa == fb
        elif k == "points":
            same = len(norm(a)) == len(norm(b)) and all(float(x) == float(y) for x, y in zip(norm(a), norm(b)))
        elif k == "constant_shapes":
            same = [norm(x) for x in norm(a)] == [norm(x) for x in norm(b)]
        else:
            same = norm(a) == norm(b)
        if not same:
            out[k] = {"C": a, "numba": b}
    return out


class Session:
    """asks the driver and records the comparisons of one object"""

    def __init__(self, chk, d):
        self.chk, self.d = chk, d
        self.level2 = []  # inputs where C.storeForm ∘ C.form and Numba.form differ
        self.seen = set()

    def _count(self, what):
        k = "compared:" + what
        self.chk.hist[k] = self.chk.hist.get(k, 0) + 1

    def oracle(self, kind, origin, name, c, nb, level, replay):
        """real C descriptor vs real numba descriptor of the same object: a difference is a failing input"""
        if c is None or nb is None:
            return
        self._count(f"{kind}:real-C-{level}-vs-real-numba")
        df = real_diff(c, nb)
        if not df:
            return
        src = origin.split(":")[0]
        for field in df:
            key = f"c18:descriptor:{kind}:{field}" + ("" if src == "corpus" else f":{src}")
            if level == "cffi" and kind == "form" and field == "form_integral_ids" and any(
                    not -2**31 <= v < 2**31 for v in (df[field]["numba"] or [])):
                key = KEY_INT32  # the C `int` member cannot hold the id (theorem form_descriptors_counterexample)
            if key in self.seen:
                continue
            self.seen.add(key)
            self.chk.violation(key, f"{kind} descriptor field `{field}` differs between the C backend ({'compiled struct read through cffi' if level == 'cffi' else 'generated initialisers'}) and the numba backend",
                               {"origin": origin, kind: name, "field": field, "C": df[field]["C"], "numba": df[field]["numba"], "replay": replay[:3000]})

    def form(self, origin, name, table, irtext, c_text=None, c_decls=None, c_cffi=None, nb=None):
        chk, d = self.chk, self.d
        mc = parse_form_reply(d.ask(f"(cform {table} {irtext})"))
        mn = parse_form_reply(d.ask(f"(numbaform {table} {irtext})"))
        agree = d.ask(f"(formagree {table} {irtext})")
        if agree[0] != "true":  # an instance of the theorem evaluated by the compiled model
            chk.disagree("driver evaluates form_descriptors_agree to false (compiled model ≠ proved model)", {"origin": origin, "form": name, "ir": irtext[:2000]})
        fits = [x == "true" for x in d.ask(f"(fits {table} {irtext})")]  # idsFit, FieldsFit, table rows < 2^31
        if all(fits) and agree[1] != "true":  # an instance of form_descriptors_agree_compiled
            chk.disagree("driver evaluates form_descriptors_agree_compiled to false (compiled model ≠ proved model)", {"origin": origin, "form": name, "ir": irtext[:2000]})
        if origin.startswith("corpus:") and not fits[0]:
            chk.disagree("a FormIR built by the real _compute_form_ir violates idsFit (lemma formIR_idsFit)", {"origin": origin, "form": name, "ir": irtext[:2000]})
        self._count("form:idsFit" if fits[0] else "form:ids-outside-guard")
        if agree[1] != "true":
            self.level2.append((origin, name, table, irtext))
        keyparts = [origin.split(":")[0]]
        if not isinstance(mc, tuple):
            keyparts += [str(mc["form_integral_offsets"]), str(mc["form_integral_ids"]), str(len(mc["form_integrals"] or [])),
                         str(mc["num_coefficients"]), str(mc["constant_shapes"])]
        else:
            keyparts += ["error"]
        chk.case("descr_form", "|".join(keyparts),
                 sample={"form": name, "origin": origin, "model_c": mc if isinstance(mc, tuple) else {k: mc[k] for k in ("form_integral_offsets", "form_integral_ids", "form_integrals")}} if chk.hist.get("descr_form", 0) < 2 else None)
        if c_text is not None:
            self._count("form:C-text")
            df = _diff(mc, c_text)
            if df:
                chk.disagree("C.form vs the initialisers of the text generated by C/form.py", {"origin": origin, "form": name, "fields": df, "ir": irtext[:1500]})
            if c_decls is not None and not isinstance(mc, tuple) and not isinstance(c_text, tuple):
                r = d.ask(f"(cformdecls {table} {irtext})")
                md = sorted((a[0], int(a[1]), int(a[2])) for a in r[1]) if r[0] == "ok" else ("error",)
                if md != c_decls:
                    chk.disagree("C.formDecls vs the array definitions of the generated C text", {"origin": origin, "form": name, "model": md, "impl": c_decls})
        if nb is not None:
            self._count("form:numba-class")
            df = _diff(mn, nb)
            if df:
                chk.disagree("Numba.form vs the attributes of the class generated by numba/form.py", {"origin": origin, "form": name, "fields": df, "ir": irtext[:1500]})
        if c_cffi is not None:
            self._count("form:C-cffi")
            ms = parse_form_reply(d.ask(f"(cformstored {table} {irtext})"))
            df = _diff(ms, c_cffi, skip=("factory", "alias", "form_integrals"))
            if not isinstance(ms, tuple) and (ms["form_integrals"] is None) != (c_cffi["rows"] is None):
                df["form_integrals"] = {"model": ms["form_integrals"], "impl": "NULL" if c_cffi["rows"] is None else "non-NULL"}
            if df:
                chk.disagree("C.storeForm ∘ C.form vs the ufcx_form struct read through cffi", {"origin": origin, "form": name, "fields": df, "ir": irtext[:1500]})
        replay = f"entry {origin}" if origin.startswith("corpus:") else f"FormIR {irtext}"
        self.oracle("form", origin, name, c_text, nb, "text", replay)
        self.oracle("form", origin, name, c_cffi, nb, "cffi", replay)
        return mc, mn

    def construction(self, origin, name, itgs, groups):
        """the id/name/domain loop of `_compute_form_ir` (with its guards) vs `formIRIntegrals`"""
        self._count("form:_compute_form_ir-loop")
        m = parse_groups(self.d.ask(f"(formirints {len(TYPES)} {itgs})"))
        if m != groups:
            self.chk.disagree("formIRIntegrals vs the subdomain_ids / integral_names / integral_domains built by _compute_form_ir",
                              {"origin": origin, "form": name, "input": itgs[:1500], "model": m, "impl": groups})

    def integral(self, origin, name, irtext, domtext, st, win32, c_text=None, c_cffi=None, nb=None):
        chk, d = self.chk, self.d
        w = "true" if win32 else "false"
        mc = parse_integral_reply(d.ask(f"(cintegral {irtext} {domtext} {st} {w})"))
        mn = parse_integral_reply(d.ask(f"(numbaintegral {irtext} {domtext} {st} {w})"))
        key = "error" if isinstance(mc, tuple) else f"{mc['enabled_coefficients']}|{mc['needs_facet_permutations']}|{mc['domain']}|{st}|{w}"
        chk.case("descr_integral", f"{origin.split(':')[0]}|{key}")
        if c_text is not None:
            self._count("integral:C-text")
            df = _diff(mc, c_text)
            if df:
                chk.disagree("C.integral vs the initialisers of the text generated by C/integral.py", {"origin": origin, "integral": name, "fields": df, "ir": irtext})
        if nb is not None:
            self._count("integral:numba-class")
            df = _diff(mn, nb)
            if df:
                chk.disagree("Numba.integral vs the attributes of the class generated by numba/integral.py", {"origin": origin, "integral": name, "fields": df, "ir": irtext})
        if c_cffi is not None and not isinstance(mc, tuple):
            self._count("integral:C-cffi")
            m2 = dict(mc, kernels=_kern_nullness(mc["kernels"]))
            i2 = dict(c_cffi, kernels=_kern_nullness(c_cffi["kernels"]))
            df = _diff(m2, i2, skip=("factory",))
            if df:
                chk.disagree("C.integral vs the ufcx_integral struct read through cffi", {"origin": origin, "integral": name, "fields": df, "ir": irtext})
        replay = f"entry {origin}" if origin.startswith("corpus:") else f"IntegralIR {irtext} {domtext} {st} win32={w}"
        self.oracle("integral", origin, name, c_text, nb, "text", replay)
        self.oracle("integral", origin, name, c_cffi, nb, "cffi", replay)
        return mc, mn

    def expression(self, origin, name, irtext, st, c_text=None, c_cffi=None, nb=None, oracle=True):
        chk, d = self.chk, self.d
        mc = parse_expr_reply(d.ask(f"(cexpr {irtext} {st})"))
        mn = parse_expr_reply(d.ask(f"(numbaexpr {irtext} {st})"))
        key = "error" if isinstance(mc, tuple) else "|".join(str(mc[k]) for k in ("num_points", "entity_dimension", "value_shape", "rank", "num_coefficients", "num_constants", "original_coefficient_positions"))
        chk.case("descr_expression", f"{origin.split(':')[0]}|{key}|{st}")
        nb_in = nb
        if c_text is not None:
            self._count("expression:C-text")
            df = _diff(mc, c_text)
            if df:
                chk.disagree("C.expression vs the initialisers of the text generated by C/expression.py", {"origin": origin, "expression": name, "fields": df, "ir": irtext[:1500]})
        if nb is not None:
            self._count("expression:numba-class")
            if not isinstance(mn, tuple) and not isinstance(nb, tuple):
                nb = dict(nb)
                pts = nb.pop("points")
                df = _diff({k: v for k, v in mn.items() if k != "points"}, nb)
                if not _points_equal(mn["points"], pts):
                    df["points"] = {"model": mn["points"], "impl": pts}
            else:
                df = _diff(mn, nb)
            if df:
                chk.disagree("Numba.expression vs the attributes of the class generated by numba/expression.py", {"origin": origin, "expression": name, "fields": df, "ir": irtext[:1500]})
        if c_cffi is not None and not isinstance(mc, tuple):
            self._count("expression:C-cffi")
            m2 = dict(mc, kernels=_kern_nullness(mc["kernels"]))
            i2 = dict(c_cffi, kernels=_kern_nullness(c_cffi["kernels"]))
            pts = i2.pop("points")
            df = _diff({k: v for k, v in m2.items() if k != "points"}, i2, skip=("factory", "alias"))
            if not _points_equal(m2["points"], pts):
                df["points"] = {"model": m2["points"], "impl": pts}
            if df:
                chk.disagree("C.expression vs the ufcx_expression struct read through cffi", {"origin": origin, "expression": name, "fields": df, "ir": irtext[:1500]})
        replay = f"entry {origin}" if origin.startswith("corpus:") else f"ExpressionIR {irtext} {st}"
        if oracle:
            self.oracle("expression", origin, name, c_text, nb_in, "text", replay)
            self.oracle("expression", origin, name, c_cffi, nb_in, "cffi", replay)
        elif real_diff(c_text, nb_in):  # an IR the pipeline cannot produce: recorded, not a failing input
            self.chk.hist["unreachable-ir-asymmetry:expression"] = self.chk.hist.get("unreachable-ir-asymmetry:expression", 0) + 1
        return mc, mn


# ============================================================================ corpus entries through the real pipeline
def _entry_options(e):
    o = dict(e.options or {})
    if "complex" in (e.tags or ()) and "scalar_type" not in o:
        o["scalar_type"] = "complex128"
    return o


def _work_entry(e, use_cffi=True):
    """runs in a forked worker: everything the main process needs as plain data"""
    from ffcx.codegeneration.codegeneration import generate_code
    from ffcx.formatting import format_code

    warnings.filterwarnings("ignore")

    def front(o):
        """UFL objects -> (compiled objects, module, IR): the stages before the descriptor generators"""
        objs = e.build()
        comp = mod = None
        ns_name = "vf"
        if use_cffi:
            tag = "_".join(f"{k}={v}" for k, v in sorted(o.items())) or "default"
            cd = cjit.cache_dir(tag.replace("/", "_")[:60])
            if e.kind == "expression":
                comp, mod, _ = pipeline.jit_expressions(objs, cd, o)
            else:
                comp, mod, _ = pipeline.jit_forms(objs, cd, o)
            ns_name = mod.__name__  # the JIT's prefix: the IR below then carries the names of the compiled module
        an, ir = pipeline.compute(objs, pipeline.default_options(**o), namespace=ns_name)
        return comp, mod, (an, ir)

    o = _entry_options(e)
    loose = bool({"demo", "generated"} & set(e.tags or ()))  # inputs FFCx may not support in this mode
    try:
        comp, mod, ir = front(o)
    except Exception as ex:
        if not loose:
            raise
        try:  # complex-only demos
            o = dict(o, scalar_type="complex128")
            comp, mod, ir = front(o)
        except Exception:
            return {"name": e.name, "skipped": f"{type(ex).__name__}: {str(ex)[:120]}"}
    an, ir = ir
    st = str(o.get("scalar_type", "float64"))
    optC = pipeline.default_options(language="C", **o)
    optN = pipeline.default_options(language="numba", **o)
    codeC, _ = generate_code(ir, optC)
    codeN, _ = generate_code(ir, optN)
    nsrc = format_code(codeN)[0]
    ns = load_numba(nsrc)
    out = {"name": e.name, "scalar": st, "forms": [], "integrals": [], "expressions": [], "bad": []}
    ffi = mod.ffi if mod is not None else None
    cffi_integrals = {}
    nint = 0
    for i, fir in enumerate(ir.forms):
        table, irtext = export_form(fir)
        fd = an.form_data[i]
        iirs = ir.integrals[nint:nint + len(fd.integral_data)]
        nint += len(fd.integral_data)
        itgs, groups = export_itgs(fd, iirs), groups_of(fir)
        ctext = codeC.forms[i][1]
        cd_, decls = parse_c_form(ctext, fir.name)
        try:
            nb = read_numba_form(ns, fir.name, fir.name_from_uflfile)
        except Exception as ex:
            nb = ("error", f"{type(ex).__name__}: {ex}")
        cf = None
        if comp is not None:
            ntab = sum(len(ds) for t in TYPES for ds in fir.integral_domains[t])
            cf = read_cffi_form(ffi, comp[i], fir, ntab)
            rows = cf.pop("rows")
            cf["rows"] = None if rows is None else len(rows)
            if rows is not None and not isinstance(cd_, tuple) and cd_["form_integrals"] is not None:
                for nm, r in zip(cd_["form_integrals"], rows):
                    cffi_integrals[nm] = read_cffi_integral(ffi, r, len(fir.original_coefficient_positions))
        out["forms"].append({"name": fir.name, "table": table, "ir": irtext, "c_text": cd_, "decls": decls, "c_cffi": cf, "numba": nb,
                             "itgs": itgs, "groups": groups})
    k = 0
    for iir in ir.integrals:
        for dom in set(key[0] for key in iir.expression.integrand.keys()):  # the loop of generate_code
            nm = f"{iir.expression.name}_{dom.name}"
            irtext, domtext = export_integral(iir, dom)
            ctext = codeC.integrals[k][1]
            k += 1
            try:
                nb = read_numba_integral(ns, nm)
            except Exception as ex:
                nb = ("error", f"{type(ex).__name__}: {ex}")
            out["integrals"].append({"name": nm, "ir": irtext, "dom": domtext, "c_text": parse_c_integral(ctext, nm),
                                     "c_cffi": cffi_integrals.get(nm), "numba": nb})
    for i, eir in enumerate(ir.expressions):
        irtext = export_expression(eir)
        nm = eir.expression.name
        ctext = codeC.expressions[i][1]
        try:
            nb = read_numba_expression(ns, nm, eir.name_from_uflfile)
        except Exception as ex:
            nb = ("error", f"{type(ex).__name__}: {ex}")
        ce = read_cffi_expression(ffi, comp[i], eir) if comp is not None and e.kind == "expression" else None
        out["expressions"].append({"name": nm, "ir": irtext, "c_text": parse_c_expression(ctext, nm), "c_cffi": ce, "numba": nb})
    return out


def check_entries(chk, sess, entries, use_cffi=True):
    def work(i):
        return _work_entry(entries[i], use_cffi)

    res = cjit.parallel_map(work, list(range(len(entries))))
    for i in range(len(entries)):
        st, r = res.get(i, ("died", ""))
        e = entries[i]
        if st != "ok":
            if "NotExportable" in str(r):
                chk.disagree("a real IR holds a value outside the types of the Lean IR records", {"entry": e.name, "detail": str(r)[:400]})
            else:
                chk.notes.setdefault("descr_errors", []).append(f"{e.name}: {st}: {str(r)[:300]}")
                chk.disagree("descriptor comparison run failed", {"entry": e.name, "detail": str(r)[-600:]})
            continue
        if "skipped" in r:  # rejected before the descriptor generators run (not this property's business)
            chk.hist["skipped:" + r["skipped"].split(":")[0]] = chk.hist.get("skipped:" + r["skipped"].split(":")[0], 0) + 1
            chk.notes.setdefault("descr_skipped", []).append(f"{e.name}: {r['skipped']}")
            continue
        chk.programs += 1
        for f in r["forms"]:
            sess.form(f"corpus:{e.name}", f["name"], f["table"], f["ir"], f["c_text"], f["decls"], f["c_cffi"], f["numba"])
            sess.construction(f"corpus:{e.name}", f["name"], f["itgs"], f["groups"])
        for g in r["integrals"]:
            sess.integral(f"corpus:{e.name}", g["name"], g["ir"], g["dom"], r["scalar"], False, g["c_text"], g["c_cffi"], g["numba"])
        for x in r["expressions"]:
            sess.expression(f"corpus:{e.name}", x["name"], x["ir"], r["scalar"], x["c_text"], x["c_cffi"], x["numba"])


# ============================================================================ synthetic IRs through the real generator functions
_CELLS = [basix.CellType.interval, basix.CellType.triangle, basix.CellType.quadrilateral, basix.CellType.tetrahedron,
          basix.CellType.hexahedron, basix.CellType.prism, basix.CellType.pyramid, basix.CellType.point]


def synthetic_form_irs(seed, n):
    """hand-built `ffcx.ir.representation.FormIR` tuples reaching shapes the corpus lacks: many domains per
    integral, empty integral types, zero coefficients, duplicate / unsorted / huge ids, None hashes, and (rarely)
    inconsistent records that make BOTH generators fail."""
    from ffcx.ir.representation import FormIR

    rng = random.Random(seed * 1000003 + 17)
    out = []
    for k in range(n):
        name = f"form_syn{seed}_{k}"
        nco = rng.choice([0, 0, 1, 2, 3, 5])
        nk = rng.choice([0, 0, 1, 2, 4])
        shapes = [tuple(rng.randint(1, 4) for _ in range(rng.choice([0, 0, 1, 2, 3]))) for _ in range(nk)]
        ranks = [len(s) for s in shapes]
        ids, names, doms = {}, {}, {}
        for t in TYPES:
            m = rng.choice([0, 0, 1, 2, 3, 6])
            pool = rng.choice([[-1, 0, 1, 2, 3], [5, 5, 7, 9, -1], list(range(40)), [2**31 - 1, 2**31, 2**31 + 5, 2**32 + 3, 7], [3, 1, 2]])
            ids[t] = [rng.choice(pool) for _ in range(m)]
            names[t] = [f"integral_{rng.getrandbits(40):010x}" for _ in range(m)]
            doms[t] = [rng.sample(_CELLS, rng.choice([1, 1, 1, 2, 2, 3, 5])) for _ in range(m)]
        kind = rng.random()
        numk = nk
        if kind < 0.06 and any(ids.values()):  # names shorter than ids: IndexError in integral_data for both
            t = next(t for t in TYPES if ids[t])
            names[t] = names[t][:-1]
        elif kind < 0.12 and nk:  # rank > 0 but empty shape: both refer to an undefined constant_shapes_… name
            j = rng.randrange(nk)
            ranks[j], shapes[j] = 2, ()
        elif kind < 0.16 and nk:  # rank 0 with a non-empty shape: NULL/None in the table, unused definition
            j = rng.randrange(nk)
            ranks[j] = 0
            shapes[j] = (2, 2)
        ir = FormIR(id=k, name=name, signature="".join(rng.choice("0123456789abcdef") for _ in range(rng.choice([0, 8, 128]))),
                    rank=rng.choice([0, 1, 2]), num_coefficients=nco, name_from_uflfile=f"form_syn_{k}_a",
                    original_coefficient_positions=sorted(rng.sample(range(nco + 3), nco)),
                    coefficient_names=[f"w{j}" for j in range(nco)], num_constants=numk, constant_ranks=ranks,
                    constant_shapes=shapes, constant_names=[rng.choice(["c", "kappa", "mu"]) + str(j) for j in range(nk)],
                    finite_element_hashes=[rng.choice([None, rng.getrandbits(64), rng.getrandbits(64), 2**64 - 1, 0]) for _ in range(rng.choice([0, 1, 2, 4]))],
                    integral_names=names, integral_domains=doms, subdomain_ids=ids)
        out.append(ir)
    return out


def _gen_both(gen_c, gen_n, *args):
    """call the two real generators on the same input; each returns text or ("raise", type name)"""
    res = []
    for g in (gen_c, gen_n):
        try:
            res.append(g(*args))
        except Exception as ex:
            res.append(("raise", type(ex).__name__ + ": " + str(ex)[:80]))
    return res


def _compile_synthetic(forms, tmp):
    """one cffi module with every synthetic C form (integrals stubbed) -> {name: struct}, ffi"""
    import cffi

    import ffcx.codegeneration
    from ffcx.codegeneration import jit

    stubs = sorted({n for _, _, parsed, _ in forms for n in (parsed["form_integrals"] or [])})
    body = "#include <stdint.h>\n#include <stdbool.h>\n#include <stddef.h>\n#include <ufcx.h>\n"
    body += "".join(f"ufcx_integral {n} = {{0}};\n" for n in stubs)
    body += "\n".join(text for _, text, _, _ in forms)
    decl = jit.UFC_HEADER_DECL.format("float64") + jit.UFC_INTEGRAL_DECL + jit.UFC_FORM_DECL
    decl += "".join(f"extern ufcx_form {ir.name};\n" for ir, _, _, _ in forms)
    fb = cffi.FFI()
    modname = f"descr_syn_{abs(hash(body)) % 10**12}"
    fb.set_source(modname, body, include_dirs=[ffcx.codegeneration.get_include_path()], extra_compile_args=["-std=c17", "-O0", "-w"])
    fb.cdef(decl)
    import contextlib
    import importlib.machinery
    import importlib.util
    import io

    with contextlib.redirect_stdout(io.StringIO()), contextlib.redirect_stderr(io.StringIO()):
        fb.compile(tmpdir=str(tmp), verbose=False)
    finder = importlib.machinery.FileFinder(str(tmp), (importlib.machinery.ExtensionFileLoader, importlib.machinery.EXTENSION_SUFFIXES))
    spec = finder.find_spec(modname)
    m = importlib.util.module_from_spec(spec)
    spec.loader.exec_module(m)
    return m


def check_synthetic_forms(chk, sess, seed, n):
    import ffcx.codegeneration.C.form as cform
    import ffcx.codegeneration.numba.form as nform

    opts = pipeline.default_options()
    compiled = []
    for ir in synthetic_form_irs(seed, n):
        try:
            table, irtext = export_form(ir)
        except NotExportable as ex:
            chk.disagree("synthetic IR not exportable", {"detail": str(ex)})
            continue
        rc, rn = _gen_both(lambda i, o: cform.generator(i, o)[1], lambda i, o: nform.generator(i, o)[0], ir, opts)
        if isinstance(rc, tuple):
            c_text, decls = ("error", rc[1]), None
        else:
            c_text, decls = parse_c_form(rc, ir.name)
        if isinstance(rn, tuple):
            nb = ("error", rn[1])
        else:
            stubs = sorted({f"{nm}_{d.name}" for t in TYPES for nm, ds in zip(ir.integral_names[t], ir.integral_domains[t]) for d in ds})
            try:
                nb = read_numba_form(load_numba(rn, stubs), ir.name, ir.name_from_uflfile)
            except NameError as ex:
                nb = ("error", f"NameError: {ex}")
        sess.form(f"synthetic:{seed}", ir.name, table, irtext, c_text, decls, None, nb)
        if not isinstance(c_text, tuple):
            compiled.append((ir, rc, c_text, nb))
    # level 2: compile all accepted C forms in one module and read the structs back
    if compiled:
        tmp = Path(tempfile.mkdtemp(prefix="ffcxverif_descr_"))
        try:
            m = _compile_synthetic(compiled, tmp)
            for ir, _, parsed, nb in compiled:
                table, irtext = export_form(ir)
                ntab = sum(len(ds) for t in TYPES for ds in ir.integral_domains[t])
                cf = read_cffi_form(m.ffi, getattr(m.lib, ir.name), ir, ntab)
                rows = cf.pop("rows")
                cf["rows"] = None if rows is None else len(rows)
                ms = parse_form_reply(sess.d.ask(f"(cformstored {table} {irtext})"))
                df = _diff(ms, cf, skip=("factory", "alias", "form_integrals"))
                if not isinstance(ms, tuple) and (ms["form_integrals"] is None) != (cf["rows"] is None):
                    df["form_integrals"] = {"model": ms["form_integrals"], "impl": cf["rows"]}
                chk.case("descr_form_stored", f"syn|{cf['form_integral_ids']}")
                if df:
                    chk.disagree("C.storeForm ∘ C.form vs the compiled struct of a synthetic FormIR", {"form": ir.name, "fields": df, "ir": irtext[:1500]})
                # level 2 is the property's business only for IRs FFCx can produce: `_compute_form_ir` rejects ids outside
                # [-1, 2^31-1] (fix 9a772cd); the others stay correspondence inputs of `C.storeForm` (above)
                if all(ID_MIN <= int(i) <= ID_MAX for t in TYPES for i in ir.subdomain_ids[t]):
                    sess.oracle("form", f"synthetic:{seed}", ir.name, cf, nb, "cffi", f"FormIR {irtext}")
                else:
                    chk.hist["unproducible-ir:ids-outside-guard"] = chk.hist.get("unproducible-ir:ids-outside-guard", 0) + 1
        finally:
            shutil.rmtree(tmp, ignore_errors=True)


class _Win32:
    """stands in for the `sys` module inside C/integral.py: `sys.platform.startswith("win32")` is true"""

    platform = "win32"

    def __getattr__(self, k):
        return getattr(sys, k)


def check_synthetic_integrals(chk, sess, seed, n):
    """real IntegralIRs with the descriptor fields replaced, all four scalar types, both platform flags"""
    import ffcx.codegeneration.C.integral as cint
    import ffcx.codegeneration.numba.integral as nint

    rng = random.Random(seed * 7919 + 3)
    base = []
    for e in corpus.fixed():
        if e.name in ("mass_tri_p1", "rhs_tri_p2", "int_facet_tri", "prism"):
            with warnings.catch_warnings():
                warnings.simplefilter("ignore")
                _, ir = pipeline.compute(e.build(), pipeline.default_options())
            for iir in ir.integrals:
                for dom in sorted({k[0] for k in iir.expression.integrand.keys()}, key=int):
                    base.append((iir, dom))
    for k in range(n):
        iir, dom = base[k % len(base)]
        en = [rng.random() < 0.5 for _ in range(rng.choice([0, 0, 1, 2, 5]))]
        h = rng.choice([None, 0, rng.getrandbits(64)]) if rng.random() < 0.3 else rng.getrandbits(64)
        iir2 = iir._replace(enabled_coefficients=en, expression=iir.expression._replace(
            needs_facet_permutations=rng.random() < 0.5, coordinate_element_hash=h, name=f"integral_syn{seed}_{k}"))
        st = SCALARS[k % 4]
        win = (k // 4) % 3 == 2
        opts = pipeline.default_options(scalar_type=st)
        irtext, domtext = export_integral(iir2, dom)
        saved = cint.sys
        cint.sys = _Win32() if win else saved
        try:
            rc, rn = _gen_both(lambda i, d_, o: cint.generator(i, d_, o)[1], lambda i, d_, o: nint.generator(i, d_, o)[0], iir2, dom, opts)
        finally:
            cint.sys = saved
        nm = f"{iir2.expression.name}_{dom.name}"
        c_text = ("error", rc[1]) if isinstance(rc, tuple) else parse_c_integral(rc, nm)
        nb = ("error", rn[1]) if isinstance(rn, tuple) else read_numba_integral(load_numba("import numpy as np\nimport math\n" + rn), nm)
        sess.integral(f"synthetic:{seed}", nm, irtext, domtext, st, win, c_text, None, nb)


def check_synthetic_expressions(chk, sess, seed, n):
    import ffcx.codegeneration.C.expression as cexp
    import ffcx.codegeneration.numba.expression as nexp

    rng = random.Random(seed * 104729 + 5)
    base = []
    for e in corpus.expressions():
        if e.name in ("expr_grad_tri", "expr_rank1", "expr_tensor", "expr_two", "expr_interval"):
            with warnings.catch_warnings():
                warnings.simplefilter("ignore")
                _, ir = pipeline.compute(e.build(), pipeline.default_options())
            base += list(ir.expressions)
    for k in range(n):
        eir = base[k % len(base)]
        nco = rng.choice([0, 1, 2, 4])
        h = rng.choice([None, 0]) if rng.random() < 0.25 else rng.getrandbits(64)
        eir2 = eir._replace(original_coefficient_positions=[rng.randrange(0, 9) for _ in range(nco)],
                            coefficient_names=[f"w{j}" for j in range(rng.choice([0, nco]))],
                            constant_names=[f"c{j}" for j in range(rng.choice([0, 0, 1, 3]))],
                            name_from_uflfile=f"expression_syn_{k}",
                            expression=eir.expression._replace(coordinate_element_hash=h, name=f"expression_syn{seed}_{k}"))
        st = SCALARS[k % 4]
        opts = pipeline.default_options(scalar_type=st)
        irtext = export_expression(eir2)
        rc, rn = _gen_both(lambda i, o: cexp.generator(i, o)[1], lambda i, o: nexp.generator(i, o)[0], eir2, opts)
        nm = eir2.expression.name
        c_text = ("error", rc[1]) if isinstance(rc, tuple) else parse_c_expression(rc, nm)
        nb = ("error", rn[1]) if isinstance(rn, tuple) else read_numba_expression(load_numba("import numpy as np\nimport math\n" + rn), nm, eir2.name_from_uflfile)
        # `_compute_expression_ir` always stores an int hash: a None hash exercises the model's error branch
        # (theorem expression_descriptors_counterexample) but is not an input of the property's oracle
        sess.expression(f"synthetic:{seed}", nm, irtext, st, c_text, None, nb, oracle=h is not None)


# ============================================================================ module prelude / enums
def check_prelude(chk, d):
    import ffcx.codegeneration.numba.file as nfile

    (pre,), _ = nfile.generator(pipeline.default_options(language="numba"))
    ns = load_numba(pre)
    impl = [(k, v) for k, v in ns.items() if isinstance(v, int) and not isinstance(v, bool) and not k.startswith("__")]
    model = [(a[0], int(a[1])) for a in d.ask("(prelude)")]
    chk.case("descr_prelude", "prelude")
    if model != impl:
        chk.disagree("Numba.preludeConstants vs the integers bound by the generated numba module prelude", {"model": model, "impl": impl})
    en, tags = d.ask("(enums)")
    hdr = (Path(nfile.__file__).resolve().parent.parent / "ufcx.h").read_text()
    body = re.search(r"typedef enum\s*\{(.*?)\}\s*ufcx_integral_type;", hdr, re.S).group(1)
    impl_en = [(m.group(1), int(m.group(2))) for m in re.finditer(r"(\w+)\s*=\s*(\d+)", body)]
    if [(a[0], int(a[1])) for a in en] != impl_en:
        chk.disagree("C.integralTypeEnum vs enum ufcx_integral_type of ufcx.h", {"model": en, "impl": impl_en})
    impl_tags = sorted(((c.name, int(c)) for c in basix.CellType.__members__.values()), key=lambda p: p[1])
    if [(a[0], int(a[1])) for a in tags] != impl_tags:
        chk.disagree("C.cellTypeTags vs int(basix.CellType)", {"model": tags, "impl": impl_tags})
    # recorded, not a violation of C18's statement: the prelude's own names do not decode the module's tables
    emap, pmap = dict(impl_en), dict(impl)
    chk.notes["descr_prelude_observation"] = {
        "integral types whose prelude constant differs from ufcx_integral_type": {k: {"ufcx.h": v, "numba prelude": pmap.get(k)} for k, v in emap.items() if pmap.get(k) != v},
        "cell types whose prelude constant differs from int(basix.CellType) (the `domain` attribute)": {k: {"basix": v, "numba prelude": pmap[k]} for k, v in impl_tags if k in pmap and pmap[k] != v}}


# ============================================================================ probe: the id guard through the real pipeline
def _boundary_forms():
    import ufl

    m, V = corpus.space("triangle")
    v = ufl.TestFunction(V)
    B = 2**31
    return [("v*dx(3) + v*dx(2**31-1)", v * ufl.dx(3) + v * ufl.dx(B - 1)),
            ("v*dx(0)", v * ufl.dx(0)),
            ("v*dx(3) + v*dx(2**31+5)", v * ufl.dx(3) + v * ufl.dx(B + 5)),  # the replay of the repaired finding
            ("v*dx(2**31)", v * ufl.dx(B)),
            ("v*dx((1, 2**31))", v * ufl.dx((1, B))),
            ("v*dx + v*ds(2**32+3)", v * ufl.dx + v * ufl.ds(2**32 + 3)),
            ("v*dx(-1)", v * ufl.dx(-1)),
            ("v*dx(-2)", v * ufl.dx(-2)),
            ("v*dx + v*ds((4, -2))", v * ufl.dx + v * ufl.ds((4, -2)))]


def probe_int_range(chk, d, seen=None):
    """Boundary forms through the REAL pipeline: (a) `_compute_form_ir` accepts exactly when the model's guard
    (`formIRIntegrals`) does, with the same message; (b) for every ACCEPTED form the JIT-compiled C descriptor read
    through cffi equals the numba class attribute (the armed search key of the repaired finding: it fires again if a
    form with an id the `int` member cannot hold gets through)."""
    import ffcx.compiler
    from ffcx.analysis import analyze_ufl_objects

    seen = seen if seen is not None else set()
    for text, form in _boundary_forms():
        with warnings.catch_warnings():
            warnings.simplefilter("ignore")
            try:
                an = analyze_ufl_objects([form], "float64")
            except Exception as ex:  # rejected by UFL itself: not an input of FFCx
                chk.hist["probe:rejected-by-ufl"] = chk.hist.get("probe:rejected-by-ufl", 0) + 1
                chk.notes.setdefault("descr_probe_ufl_rejects", []).append(f"{text}: {type(ex).__name__}")
                continue
            model = parse_groups(d.ask(f"(formirints {len(TYPES)} {export_itgs(an.form_data[0], None)})"))
            try:
                _, ir = pipeline.compute([form], pipeline.default_options())
                real = "accepted"
            except ValueError as ex:
                real = str(ex)
        mtxt = model[1] if isinstance(model, tuple) else "accepted"
        chk.case("descr_probe_guard", f"{text}|{real}", sample={"form": text, "_compute_form_ir": real, "model": mtxt} if chk.hist.get("descr_probe_guard", 0) < 3 else None)
        if mtxt != real:
            chk.disagree("guards of _compute_form_ir vs formIRIntegrals on a boundary form", {"form": text, "model": mtxt, "impl": real})
        if real != "accepted":
            continue
        with pipeline.TmpCache() as tmp:
            (cf,), mod, _ = pipeline.jit_forms([form], tmp, options={}, cffi_extra_compile_args=["-O0"])
            n = int(cf.form_integral_offsets[len(TYPES)])
            cids = [int(cf.form_integral_ids[i]) for i in range(n)]
        src = ffcx.compiler.compile_ufl_objects([form], options=pipeline.default_options(language="numba"), namespace="vf")[0][0]
        ns = load_numba(src)
        cls = next(c for k, c in ns.items() if isinstance(c, type) and hasattr(c, "form_integral_ids"))
        nids = list(cls.form_integral_ids or [])
        chk.case("descr_probe_int_range", f"ids|{cids}|{nids}", sample={"form": text, "C (cffi)": cids, "numba": nids})
        if cids != nids and KEY_INT32 not in seen:
            seen.add(KEY_INT32)
            chk.violation(KEY_INT32, "form_integral_ids of the compiled C form and of the numba form class differ "
                          "(a subdomain id the C `int` member cannot hold got through _compute_form_ir)",
                          {"ufl": f"{text}  (P1 triangle, v = TestFunction)", "C form_integral_ids (cffi)": cids, "numba form_integral_ids": nids,
                           "theorem": "Ffcx.C18Descr.form_descriptors_agree_compiled / form_descriptors_counterexample", "fixed_by": FIXED[KEY_INT32]})


# ============================================================================ entry point
def check_descriptors(chk, d, entries, probes=True, use_cffi=True):
    """model ↔ both real backends on `entries` (corpus) + seeded synthetic IRs; see the module docstring."""
    r = d.ask("(descr_ping)")
    assert r == "pong-descr", r
    sess = Session(chk, d)
    check_prelude(chk, d)
    if probes:
        probe_int_range(chk, d, sess.seen)
    check_entries(chk, sess, entries, use_cffi=use_cffi)
    quick = chk.tier == "quick"
    check_synthetic_forms(chk, sess, chk.seed, 200 if quick else 1500)
    check_synthetic_integrals(chk, sess, chk.seed, 48 if quick else 240)
    check_synthetic_expressions(chk, sess, chk.seed, 40 if quick else 200)
    # level 2 differences found by the model on the explored IRs: real corpus forms must have none
    real2 = [x for x in sess.level2 if x[0].startswith("corpus:")]
    chk.notes["descr_level2_differences"] = {"synthetic": len(sess.level2) - len(real2), "corpus": len(real2)}
    for origin, name, _, irtext in real2:
        chk.violation(f"c18:descriptor:stored:{origin}", "the compiled C descriptor of a corpus form differs from the numba class (value outside the C member type)",
                      {"form": name, "ir": irtext[:1500]})
    return sess


def default_entries(tier="quick", seed=0):
    ents = corpus.fixed() + corpus.expressions()
    if tier != "quick":
        ents += corpus.complex_forms() + corpus.demos() + corpus.generated(seed, 24)
    return ents


def main(argv=None):
    """stand-alone runner: never writes evidence files (does not call chk.finish)."""
    import argparse
    import json
    import os
    import time

    from . import framework

    warnings.filterwarnings("ignore")
    ap = argparse.ArgumentParser()
    ap.add_argument("--tier", default="quick")
    ap.add_argument("--no-lean", action="store_true", help="skip the Lean obligations (build + axiom audit)")
    ap.add_argument("--no-cffi", action="store_true", help="text/attribute comparison only (no JIT)")
    ap.add_argument("--only", default=None, help="comma separated corpus entry names")
    a = ap.parse_args(argv)
    t0 = time.time()
    chk = framework.Check("C18", a.tier, int(os.environ.get("VERIF_SEED", "0") or 0))
    if not a.no_lean:
        chk.lean(DESCR_MODULE, DESCR_THEOREMS, extra_files=DESCR_FILES)
    ents = default_entries(a.tier, chk.seed)
    if a.only:
        ents = [e for e in ents if e.name in a.only.split(",")]
    with lean.Driver("driver_descr") as d:
        check_descriptors(chk, d, ents, use_cffi=not a.no_cffi)
    for m, t, ok, note in chk.obligations:
        print(f"  {'ok    ' if ok else 'BROKEN'} {t}  ({note})")
    for b in chk.broken:
        print("BROKEN:", json.dumps(b, default=str)[:1500])
    for v in chk.violations:
        print("VIOLATION:", v["key"], "-", v["what"])
        print("   ", json.dumps(v["payload"], default=str)[:800])
    for k, w in chk.known_hits:
        print("KNOWN-FINDING:", k, "-", w)
    print("notes:", json.dumps({k: v for k, v in chk.notes.items() if k.startswith("descr")}, default=str)[:1500])
    print(f"[descr_checks] tier={a.tier} seed={chk.seed} programs={chk.programs} evaluations={chk.evaluations} "
          f"nontrivial={len(chk.nontrivial)} hist={chk.hist} disagreements={chk.disagreements_checked} broken={len(chk.broken)} "
          f"violations={len(chk.violations)} known={len(chk.known_hits)} wall={time.time() - t0:.1f}s")
    return 1 if (chk.broken or chk.violations) else 0


if __name__ == "__main__":
    sys.exit(main())
