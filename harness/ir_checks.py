"""Correspondence of the IR-cluster Lean models with the real code (C01, C10).

  check_tables(chk, driver, entries, rtol, atol)
      element tables: clamp / classification / compression / access
      (lean/FfcxModel/IR/Tables.lean  <->  ffcx/ir/elementtables.py, codegeneration/access.py)
  check_factorization(chk, driver, entries)
      scalar graph S, argument factorisation F
      (lean/FfcxModel/IR/{Graph,Factorize}.lean  <->  ffcx/ir/analysis/factorization.py)
  probe_entries() / check_factorization_probes(chk, driver)
      expressions that by-pass UFL's arity checker: accepted-but-wrong (DESIGN F10) and rejected inputs

`driver` is a `harness.lean.Driver("driver_ir")`.  Nothing in /repo is modified: the observation
points are module globals wrapped for the duration of a `with` block.
"""
import contextlib
import hashlib
import inspect
import random
from fractions import Fraction
from pathlib import Path

import numpy as np
from ufl.classes import (
    Abs, ComplexValue, Condition, Conditional, Conj, Division, FloatValue, Imag, IntValue, Product,
    Real, Sum, Zero,
)

import ffcx.codegeneration.lnodes as L
import ffcx.ir.elementtables as ET
import ffcx.ir.integral as INTEGRAL
from ffcx.codegeneration.access import FFCXBackendAccess
from ffcx.codegeneration.symbols import FFCXBackendSymbols
from ffcx.ir.analysis.factorization import build_argument_indices
from ffcx.ir.analysis.modified_terminals import analyse_modified_terminal

from . import corpus, lnodes_eval, pipeline
from .sexp import rat

TIE_REL = 1e-9  # knife-edge margin (DESIGN §8)

# ---- what to pass to chk.lean(IR_MODULE, TABLE_THEOREMS + FACTORIZE_THEOREMS, extra_files=IR_FILES)
_LEAN = Path(__file__).resolve().parent.parent / "lean"
IR_MODULE = "FfcxProofs.Lemmas.TablesFactorize"
IR_FILES = [str(_LEAN / f) for f in (
    "FfcxModel/IR/Tables.lean", "FfcxModel/IR/Graph.lean", "FfcxModel/IR/Factorize.lean",
    "FfcxProofs/Lemmas/Tables.lean", "FfcxProofs/Lemmas/GraphEval.lean",
    "FfcxProofs/Lemmas/FactorizeCtor.lean", "FfcxProofs/Lemmas/FactorizeDict.lean",
    "FfcxProofs/Lemmas/FactorizeSum.lean", "FfcxProofs/Lemmas/FactorizeHandlers.lean",
    "FfcxProofs/Lemmas/FactorizeInv.lean", "FfcxProofs/Lemmas/FactorizeStep.lean",
    "FfcxProofs/Lemmas/FactorizeRun.lean", "FfcxProofs/Lemmas/FactorizeNodes.lean",
    "FfcxProofs/Lemmas/FactorizeTargets.lean",
)]
TABLE_THEOREMS = [
    "Ffcx.IR.clamp_bound", "Ffcx.IR.clamp_idem", "Ffcx.IR.zeros_replacement", "Ffcx.IR.ones_replacement",
    "Ffcx.IR.access_compress", "Ffcx.IR.access_compress_tol", "Ffcx.IR.access_compress_tol3",
    "Ffcx.IR.access_compress_needs_all_perms",
]
FACTORIZE_THEOREMS = [
    "Ffcx.IR.factorize_sound", "Ffcx.IR.accepted_closed", "Ffcx.IR.accepted_sum_operands",
    "Ffcx.IR.factorize_rejects", "Ffcx.IR.factorize_rejects_nonlinear", "Ffcx.IR.factorize_rejects_divisor",
    "Ffcx.IR.accepted_targets", "Ffcx.IR.factorize_rejects_sum_argfree",
    "Ffcx.IR.factorize_rejects_target_argfree", "Ffcx.IR.factorize_product_collision_counterexample", "Ffcx.IR.ratEnv_lawful", "Ffcx.IR.ratEnv_real",
]


# ===================================================================================== tables
class _RecDict(dict):
    """`existing_tables` replacement: `.copy()` yields a dict that logs `d[name] = tbl`."""

    def __init__(self, base, log):
        super().__init__(base)
        self._log = log

    def copy(self):
        return _RecDict(self, self._log)

    def __setitem__(self, k, v):
        self._log.append(("store", k, np.array(v, copy=True)))
        super().__setitem__(k, v)


@contextlib.contextmanager
def capture_tables():
    """Record, per call of `build_optimized_tables`, what the real code did to every table.

    Yields a list of records (dicts): raw, clamp tolerances, clamped (input of analyse_table_type),
    classification tolerances and result, is_permuted_table argument/result, the compressed
    table before de-duplication, and the final UniqueTableReferenceT.
    """
    records = []
    log = []
    o_clamp, o_an, o_perm, o_eq, o_build = (
        ET.clamp_table_small_numbers, ET.analyse_table_type, ET.is_permuted_table, ET.equal_tables,
        ET.build_optimized_tables,
    )

    def tols(fn, table, a, kw):
        """(rtol, atol, numbers) the real function will use, read off its own signature/defaults."""
        try:
            b = inspect.signature(fn).bind(table, *a, **kw)
            b.apply_defaults()
            g = b.arguments
        except (TypeError, ValueError):
            g = dict(kw)
        return (float(g.get("rtol", ET.default_rtol)), float(g.get("atol", ET.default_atol)),
                tuple(g.get("numbers", (-1.0, 0.0, 1.0))))

    def clamp(table, *a, **kw):
        rt, at, numbers = tols(o_clamp, table, a, kw)
        raw = np.array(table, copy=True)
        out = o_clamp(table, *a, **kw)
        log.append(("clamp", raw, rt, at, numbers, np.array(out, copy=True)))
        return out

    def analyse(table, *a, **kw):
        rt, at, _ = tols(o_an, table, a, kw)
        r = o_an(table, *a, **kw)
        log.append(("analyse", np.array(table, copy=True), rt, at, r))
        return r

    def permuted(table, *a, **kw):
        rt, at, _ = tols(o_perm, table, a, kw)
        r = o_perm(table, *a, **kw)
        log.append(("permuted", np.array(table, copy=True), rt, at, bool(r)))
        return r

    def equal(a, b, *rest, **kw):
        r = o_eq(a, b, *rest, **kw)
        log.append(("equal", np.array(a, copy=True), bool(r)))
        return r

    def build(quadrature_rule, cell, integral_type, entity_type, modified_terminals,
              existing_tables, *a, **kw):
        modified_terminals = list(modified_terminals)
        n0 = len(log)
        res = o_build(quadrature_rule, cell, integral_type, entity_type, modified_terminals,
                      _RecDict(existing_tables, log), *a, **kw)
        ev = log[n0:]
        del log[n0:]
        # split the event log at the clamp calls: one segment per table
        segs = []
        for e in ev:
            if e[0] == "clamp":
                segs.append([e])
            elif segs:
                segs[-1].append(e)
        mts = [k for k in res.keys() if not isinstance(k, str)]
        if len(mts) != len(segs):
            records.append({"error": f"{len(mts)} table references but {len(segs)} clamp calls"})
            return res
        for mt, seg in zip(mts, segs):
            rec = {"mt": mt, "tr": res[mt], "integral_type": integral_type, "entity_type": entity_type,
                   "cell": cell.cellname}
            for e in seg:
                if e[0] == "clamp":
                    rec.update(raw=e[1], clamp_rtol=e[2], clamp_atol=e[3], numbers=e[4], clamped=e[5])
                elif e[0] == "analyse":
                    rec.update(an_in=e[1], an_rtol=e[2], an_atol=e[3], ttype=e[4])
                elif e[0] == "permuted":
                    rec.update(perm_in=e[1], perm_rtol=e[2], perm_atol=e[3], is_permuted=e[4])
                elif e[0] == "equal":
                    rec.setdefault("own", e[1])
                elif e[0] == "store":
                    rec.setdefault("own", e[2])
            records.append(rec)
        return res

    ET.clamp_table_small_numbers, ET.analyse_table_type, ET.is_permuted_table = clamp, analyse, permuted
    ET.equal_tables, ET.build_optimized_tables = equal, build
    o_ibuild = INTEGRAL.build_optimized_tables  # `from … import build_optimized_tables` in integral.py
    INTEGRAL.build_optimized_tables = build
    try:
        yield records
    finally:
        ET.clamp_table_small_numbers, ET.analyse_table_type, ET.is_permuted_table = o_clamp, o_an, o_perm
        ET.equal_tables, ET.build_optimized_tables = o_eq, o_build
        INTEGRAL.build_optimized_tables = o_ibuild


def _flat(a):
    return " ".join(rat(x) for x in np.asarray(a, dtype=float).reshape(-1))


def _fr(a):
    return [Fraction(float(x)) for x in np.asarray(a, dtype=float).reshape(-1)]


def real_access_pattern(tr, entity_type, restriction):
    """Which of (permutation, entity, point) the REAL `table_access` / `symbols.element_table`
    replace by 0: evaluates the index expressions of the generated array access."""
    sy = FFCXBackendSymbols({}, {}, {})
    sy.element_tables[tr.name] = L.Symbol(tr.name, dtype=L.DataType.REAL)
    acc = FFCXBackendAccess(entity_type, "interior_facet", sy, {})
    iq = L.MultiIndex([L.Symbol("iq", dtype=L.DataType.INT)], [1000])
    ic = L.MultiIndex([L.Symbol("ic", dtype=L.DataType.INT)], [1000])
    a, _ = acc.table_access(tr, entity_type, restriction, iq, ic)
    b = sy.element_table(tr, entity_type, restriction)
    r = 1 if restriction == "-" else 0
    out = []
    for (p, e, q, d) in ((1, 2, 3, 4), (5, 6, 7, 8)):
        arrays = {"quadrature_permutation": {(r,): Fraction(p), (1 - r,): Fraction(-99)},
                  "entity_local_index": {(r,): Fraction(e), (1 - r,): Fraction(-98)}}
        env = {"iq": Fraction(q), "ic": Fraction(d)}
        ia = tuple(int(lnodes_eval.ev(i, env, arrays)) for i in a.indices)
        ib = tuple(int(lnodes_eval.ev(i, {"iq": Fraction(q)}, arrays)) for i in b.indices)
        out.append((ia, ib))
    return out


def _is_tie_classification(rec, what):
    """Knife-edge: the REAL predicate changes its answer when the tolerances move by 1e-9 relative."""
    for s in (1 - TIE_REL, 1 + TIE_REL):
        if what == "ttype":
            if ET.analyse_table_type(rec["an_in"].copy(), rec["an_rtol"] * s, rec["an_atol"] * s) != rec["ttype"]:
                return True
        elif what == "permuted":
            if bool(ET.is_permuted_table(rec["perm_in"].copy(), rec["perm_rtol"] * s, rec["perm_atol"] * s)) != rec["is_permuted"]:
                return True
        elif what == "clamp":
            o = ET.clamp_table_small_numbers(rec["raw"].copy(), rec["clamp_rtol"] * s, rec["clamp_atol"] * s, rec["numbers"])
            if not np.array_equal(o, rec["clamped"]):
                return True
    return False


def check_tables(chk, driver, entries, rtol, atol):
    """Tables of every kernel of `entries` (compiled with table_rtol=rtol, table_atol=atol)."""
    seen = {}
    stats = chk.notes.setdefault("tables", {"tables": 0, "distinct": 0, "dedup": 0, "ties": [], "ttypes": {},
                                              "max_read_error": 0.0, "allperms_false": 0})
    for entry in entries:
        opts = pipeline.default_options(**{**entry.options, "table_rtol": rtol, "table_atol": atol})
        with capture_tables() as records:
            try:
                pipeline.compute(entry.build(), opts)
            except BaseException as ex:  # noqa: BLE001  the tables built before the failure are still compared
                if isinstance(ex, (KeyboardInterrupt, SystemExit)):
                    raise
                chk.notes.setdefault("tables_skipped", []).append(f"{entry.name}: {type(ex).__name__}")
        for rec in records:
            if "error" in rec:
                chk.disagree("tables: capture", {"entry": entry.name, "detail": rec["error"]})
                continue
            stats["tables"] += 1
            _check_one_table(chk, driver, entry.name, rec, seen, stats)
    return stats


def _check_one_table(chk, driver, ename, rec, seen, stats):
    tr = rec["tr"]
    raw, clamped = rec["raw"], rec["clamped"]
    if raw.ndim != 4 or "ttype" not in rec or "is_permuted" not in rec or "own" not in rec:
        chk.disagree("tables: capture", {"entry": ename, "table": tr.name, "detail": "incomplete event log"})
        return
    if rec["numbers"] != (-1.0, 0.0, 1.0):
        chk.disagree("tables: clamp numbers", {"entry": ename, "numbers": rec["numbers"]})
        return
    restriction = rec["mt"].restriction
    key = hashlib.sha1(
        raw.tobytes() + repr((raw.shape, rec["clamp_rtol"], rec["clamp_atol"], rec["an_rtol"], rec["an_atol"],
                               rec["perm_rtol"], rec["perm_atol"], tr.ttype, tr.is_permuted, rec["own"].shape,
                               rec["entity_type"], restriction)).encode() + rec["own"].tobytes()
        + np.asarray(tr.values).tobytes()).hexdigest()
    stats["ttypes"][tr.ttype] = stats["ttypes"].get(tr.ttype, 0) + 1
    # DESIGN F19: the tolerances the classification really used (module defaults, not table_rtol/atol)
    tol = f"clamp=({rec['clamp_rtol']:g},{rec['clamp_atol']:g}) classify=({rec.get('an_rtol', float('nan')):g},{rec.get('an_atol', float('nan')):g})"
    stats.setdefault("tolerances_used", {})
    stats["tolerances_used"][tol] = stats["tolerances_used"].get(tol, 0) + 1
    if key in seen:
        chk.case(kind="table", key=None)
        return
    seen[key] = True
    stats["distinct"] += 1
    P, E, Q, D = raw.shape
    where = {"entry": ename, "table": tr.name, "shape": list(raw.shape), "ttype": tr.ttype,
             "integral_type": rec["integral_type"], "cell": rec["cell"]}

    # --- 1. clamp
    r = driver.ask(f"(clamp {rat(rec['clamp_rtol'])} {rat(rec['clamp_atol'])} {_flat(raw)})")
    if r[0] != "ok":
        chk.disagree("tables: clamp (driver error)", {**where, "reply": r})
        return
    model_clamped = [Fraction(v) for v in r[1:]]
    if model_clamped != _fr(clamped):
        if _is_tie_classification(rec, "clamp"):
            stats["ties"].append({**where, "what": "clamp"})
        else:
            bad = [i for i, (a, b) in enumerate(zip(model_clamped, _fr(clamped))) if a != b][:5]
            chk.disagree("tables: clamp_table_small_numbers", {
                **where, "rtol": rec["clamp_rtol"], "atol": rec["clamp_atol"],
                "entries": [(i, float(raw.reshape(-1)[i]), float(model_clamped[i]), float(clamped.reshape(-1)[i])) for i in bad]})
            return
    if not np.array_equal(clamped, rec["an_in"]):
        chk.disagree("tables: analyse_table_type is not given the clamped table", where)
        return

    # --- 2. classification + compression (the tolerances the real calls used)
    if (rec["an_rtol"], rec["an_atol"]) != (rec["perm_rtol"], rec["perm_atol"]):
        chk.disagree("tables: analyse/is_permuted tolerances differ", {**where, "an": (rec["an_rtol"], rec["an_atol"]),
                                                                        "perm": (rec["perm_rtol"], rec["perm_atol"])})
        return
    r = driver.ask(f"(classify {rat(rec['an_rtol'])} {rat(rec['an_atol'])} (dims {P} {E} {Q} {D}) {_flat(clamped)})")
    if r[0] != "ok":
        chk.disagree("tables: classify (driver error)", {**where, "reply": r})
        return
    m_ttype, m_perm = r[1], r[2] == "true"
    m_dims = tuple(int(x) for x in r[3][1:])
    m_values = [Fraction(v) for v in r[4][1:]]
    m_reads = r[5][1:]
    m_allperms = r[6][1] == "true"
    nred = int(r[7][1])
    own = rec["own"]
    chk.case(kind="table", key=f"{tr.ttype}:{'perm' if tr.is_permuted else 'noperm'}:{P}x{E}x{Q}x{D}:{rec['entity_type']}",
             sample={**where, "is_permuted": bool(tr.is_permuted), "compressed": list(own.shape)})
    if m_ttype != rec["ttype"] or rec["ttype"] != tr.ttype:
        if _is_tie_classification(rec, "ttype"):
            stats["ties"].append({**where, "what": "ttype", "model": m_ttype})
        else:
            chk.disagree("tables: analyse_table_type", {**where, "model": m_ttype, "impl": rec["ttype"], "tr": tr.ttype,
                                                        "rtol": rec["an_rtol"], "atol": rec["an_atol"]})
        return
    if m_perm != rec["is_permuted"] or rec["is_permuted"] != bool(tr.is_permuted):
        if _is_tie_classification(rec, "permuted"):
            stats["ties"].append({**where, "what": "is_permuted", "model": m_perm})
        else:
            chk.disagree("tables: is_permuted_table", {**where, "model": m_perm, "impl": rec["is_permuted"],
                                                       "tr": bool(tr.is_permuted)})
        return
    if m_dims != tuple(own.shape) or m_values != _fr(own):
        chk.disagree("tables: compressed table", {**where, "model_shape": m_dims, "impl_shape": list(own.shape)})
        return

    # --- 3. access: index pattern of the real table_access / symbols.element_table, values read
    restr = restriction if restriction in ("+", "-") else None
    etype = rec["entity_type"] if rec["entity_type"] != "cell" else "facet"  # cell: entity is the literal 0 anyway
    pats = real_access_pattern(tr, etype, restr)
    for (p, e, q, d), (ia, ib) in zip(((1, 2, 3, 4), (5, 6, 7, 8)), pats):
        mr = driver.ask(f"(access {tr.ttype} {'true' if tr.is_permuted else 'false'} {p} {e} {q} {d})")
        mi = tuple(int(x) for x in mr[1:])
        if mr[0] != "ok" or mi != ia or mi[:3] != ib:
            chk.disagree("tables: table_access index", {**where, "input": (p, e, q, d), "model": mi,
                                                        "table_access": ia, "element_table": ib})
            return
    (ia, _), _ = pats
    up, ue, uq = ia[0] != 0, ia[1] != 0, ia[2] != 0  # which run-time indices the real access uses
    pi = np.arange(P) if up else np.zeros(P, dtype=int)
    ei = np.arange(E) if ue else np.zeros(E, dtype=int)
    qi = np.arange(Q) if uq else np.zeros(Q, dtype=int)
    vals = np.asarray(tr.values)
    try:
        real_reads_own = own[np.ix_(pi, ei, qi, np.arange(D))]
        real_reads = vals[np.ix_(pi, ei, qi, np.arange(D))]
    except IndexError as ex:
        chk.violation(key=f"tables:access-out-of-bounds:{tr.ttype}",
                      what="generated table access reads outside the stored (compressed) table",
                      payload={**where, "error": str(ex), "stored": list(vals.shape)})
        return
    if "none" in m_reads or [Fraction(v) for v in m_reads] != _fr(real_reads_own):
        chk.disagree("tables: values read through tableAccess", {**where, "model_none": m_reads.count("none")})
        return
    dedup = vals.shape != own.shape or not np.array_equal(vals, own)
    if dedup:
        stats["dedup"] += 1
        chk.case(kind="table-dedup", key=f"{tr.ttype}:{P}x{E}x{Q}x{D}")
        # de-duplicated against an earlier table with equal_tables (default tolerances)
        if vals.shape != own.shape or not np.allclose(own, vals, rtol=ET.default_rtol, atol=ET.default_atol):
            chk.disagree("tables: de-duplicated table differs from the compressed one beyond equal_tables", where)
            return
    # how far the value the kernel reads is from the (clamped) uncompressed entry
    err = float(np.max(np.abs(real_reads - clamped))) if clamped.size else 0.0
    stats["max_read_error"] = max(stats["max_read_error"], err)

    # --- 4. the hypothesis of access_compress on the real table
    if not m_allperms:
        stats["allperms_false"] += 1
        # is it a knife edge on some slice p != 0 ?  (use the real predicates slice by slice)
        tie = False
        for s in (1 - TIE_REL, 1 + TIE_REL):
            for p in range(P):
                sl = clamped[p:p + 1]
                a = (ET.is_piecewise_table(sl, rec["an_rtol"], rec["an_atol"]), ET.is_uniform_table(sl, rec["an_rtol"], rec["an_atol"]))
                b = (ET.is_piecewise_table(sl, rec["an_rtol"] * s, rec["an_atol"] * s), ET.is_uniform_table(sl, rec["an_rtol"] * s, rec["an_atol"] * s))
                tie = tie or a != b
        if tie:
            stats["ties"].append({**where, "what": "classified-on-all-perms"})
        else:
            chk.violation(
                key=f"tables:classified-on-slice0-only:{tr.ttype}",
                what=f"table classified '{tr.ttype}' from permutation slice 0 only; the predicate fails on another "
                     f"slice, yet all slices are reduced (max read error {err:.3e})",
                payload={**where, "rtol": rec["an_rtol"], "atol": rec["an_atol"], "max_read_error": err,
                         "table": [float(x) for x in clamped.reshape(-1)][:4096]})
    else:
        # theorem access_compress_tol: bound geom(rtol,k)*(atol+rtol|x|) (+ one equal_tables step if de-duplicated)
        k = nred + (1 if dedup else 0)
        rt, at = rec["an_rtol"], rec["an_atol"]
        g = sum((1 + rt) ** j for j in range(k))
        bound = g * (at + rt * np.abs(clamped)) * (1 + 1e-9) + 1e-300
        if tr.ttype not in ("zeros", "ones") and clamped.size and np.any(np.abs(real_reads - clamped) > bound):
            chk.violation(key=f"tables:read-error-exceeds-bound:{tr.ttype}",
                          what="value read from the compressed table is further from the table entry than the tolerances allow",
                          payload={**where, "max_read_error": err, "k": k})


# ============================================================================== factorisation
_SIMPLE = [(Sum, "sum"), (Product, "prod"), (Division, "div"), (Conj, "conj"), (Real, "real"),
           (Imag, "imag"), (Abs, "abs"), (Conditional, "cond")]


class GraphExport:
    """S-expression text of an ExpressionGraph; terminal ids are shared between S and F."""

    def __init__(self, S):
        self.ids = {}
        arg_indices = build_argument_indices(S)
        self.arg_indices = arg_indices
        self.argpos = {}
        for pos, si in enumerate(arg_indices):
            e = S.nodes[si]["expression"]
            self.argpos[e] = (pos, int(analyse_modified_terminal(e).terminal.number()))

    def kind(self, e, deps):
        if e in self.argpos:
            return "(arg %d %d)" % self.argpos[e]
        if isinstance(e, Zero):
            return "zero"
        if isinstance(e, IntValue):
            return f"(int {int(e._value)})"
        if isinstance(e, FloatValue):
            return f"(float {rat(float(e._value))})"
        if isinstance(e, ComplexValue):
            return f"(complex {rat(complex(e._value).real)} {rat(complex(e._value).imag)})"
        if not deps and (e._ufl_is_terminal_ or e._ufl_is_terminal_modifier_):
            i = self.ids.setdefault(e, len(self.ids))
            return f"(term {i})"
        for cls, name in _SIMPLE:
            if isinstance(e, cls):
                return name
        if isinstance(e, Condition):
            return f"(condition {type(e).__name__})"
        return f"(op {type(e).__name__})"

    def nodes(self, G):
        out = []
        for i, v in G.nodes.items():
            e = v["expression"]
            if e._ufl_is_terminal_ or e._ufl_is_terminal_modifier_:
                deps = []
            else:
                deps = list(G.out_edges[i])
            out.append((self.kind(e, deps), deps))
        return out

    def graph(self, G, targets):
        ns = " ".join("(n " + " ".join([k] + [str(d) for d in ds]) + ")" for k, ds in self.nodes(G))
        ts = " ".join("(" + " ".join(str(x) for x in [t] + list(cs)) + ")" for t, cs in targets)
        return f"(graph (nodes {ns}) (targets {ts}))"


@contextlib.contextmanager
def capture_factorizations():
    """Record (S, rank, F or None, exception or None) of every compute_argument_factorization call."""
    cap = []
    orig = INTEGRAL.compute_argument_factorization

    def wrap(S, rank):
        rec = {"S": S, "rank": rank, "F": None, "exc": None}
        cap.append(rec)
        try:
            rec["F"] = orig(S, rank)
        except BaseException as ex:
            rec["exc"] = ex
            raise
        return rec["F"]

    INTEGRAL.compute_argument_factorization = wrap
    try:
        yield cap
    finally:
        INTEGRAL.compute_argument_factorization = orig


def classify_exception(ex):
    """Python exception of compute_argument_factorization -> error name of the Lean model."""
    msg = str(ex)
    if isinstance(ex, RuntimeError) and msg.startswith("Assuming that a <class"):
        cls = msg.split("'")[1].split(".")[-1]
        return ("nonlinear", cls)
    if isinstance(ex, RuntimeError) and "equal argument rank" in msg:
        return ("sumRank",)
    if isinstance(ex, RuntimeError) and "all summands to depend on the arguments" in msg:
        return ("sumArgFree",)
    if isinstance(ex, RuntimeError) and "non-zero components to depend on the arguments" in msg:
        return ("targetArgFree",)
    if isinstance(ex, AssertionError) and "Cannot divide by arguments" in msg:
        return ("divByArg",)
    if isinstance(ex, AssertionError) and "argument in condition" in msg:
        return ("condInCondition",)
    if isinstance(ex, KeyError) and "Zero" in msg:
        return ("zeroNotInF",)
    if isinstance(ex, ValueError) and "Division by zero" in msg:
        return ("divisionByZero",)
    if isinstance(ex, AssertionError):
        import traceback
        tb = traceback.extract_tb(ex.__traceback__)
        line = tb[-1].line or ""
        if "() not in" in line:
            return ("condEmptyKey",)
        if "isinstance(f1, Zero)" in line or "isinstance(f2, Zero)" in line:
            return ("condNonzeroBranch",)
        return ("assert", line)
    return (type(ex).__name__, msg[:80])


def _canon_nodes(nodes):
    """Comparison modulo what the model does not represent: operand order of sum/prod."""
    out = []
    for k, ds in nodes:
        out.append((k, tuple(sorted(ds)) if k in ("sum", "prod") else tuple(ds)))
    return out


def _lit_close(a, b):
    """float literal kinds '(float n/d)' equal up to rounding of constant folding"""
    if a == b:
        return True
    if a.startswith("(float ") and b.startswith("(float "):
        x, y = Fraction(a[7:-1]), Fraction(b[7:-1])
        return abs(x - y) <= 1e-13 * max(abs(x), abs(y))
    return False


def _model_nodes(sx):
    out = []
    for n in sx:
        k = n[1]
        ks = k if isinstance(k, str) else "(" + " ".join(k) + ")"
        out.append((ks, [int(d) for d in n[2:]]))
    return out


def _assignments(seed, tag, n_args, n_terms, count=8):
    rng = random.Random(f"{seed}:{tag}")
    out = []
    for _ in range(count):
        def rv():
            v = 0
            while v == 0:
                v = rng.randint(-48, 48)
            return Fraction(v, 16)
        out.append(([rv() for _ in range(n_args)], [rv() for _ in range(n_terms)]))
    return out


def _env_sexp(args, terms):
    a = " ".join(f"({i} {rat(v)})" for i, v in enumerate(args))
    t = " ".join(f"({i} {rat(v)})" for i, v in enumerate(terms))
    return f"(args {a}) (terms {t})"


def check_one_factorization(chk, driver, name, rec, stats, pipeline_error=None):
    """One real call of compute_argument_factorization against the model.

    `pipeline_error`: the exception with which the rest of the FFCx pipeline rejected the input after
    this call (then a wrong factorisation is not a wrong kernel, only noted)."""
    S, rank, F, exc = rec["S"], rec["rank"], rec["F"], rec["exc"]
    ex = GraphExport(S)
    targets = [(i, list(v["component"])) for i, v in S.nodes.items() if v.get("target", False)]
    s_nodes = ex.nodes(S)
    gS = ex.graph(S, targets)
    where = {"integrand": name, "rank": rank, "S_nodes": len(s_nodes)}
    hist = stats.setdefault("kinds", {})
    for k, _ in s_nodes:
        kk = k.split(" ")[0].strip("(")
        hist[kk] = hist.get(kk, 0) + 1

    wf = driver.ask(f"(wf {gS} {rank})")
    fz = driver.ask(f"(factorize {gS} {rank})")
    if wf[0] != "ok" or fz[0] not in ("ok", "err"):
        chk.disagree("factorization: driver error", {**where, "wf": wf, "factorize": str(fz)[:300], "graph": gS})
        return
    m_wf, m_strict, m_closed, m_arity = (x == "true" for x in wf[1:5])
    if not (m_closed and m_arity):
        chk.disagree("factorization: exported graph is not topologically ordered / has wrong arities",
                     {**where, "graph": gS})
        return

    # ---------- rejected by the real code
    if exc is not None:
        real = classify_exception(exc)
        model = tuple(fz[1:]) if fz[0] == "err" else ("ok",)
        chk.case(kind="factorization-reject", key=":".join(str(x) for x in real), sample={**where, "error": real})
        stats["rejected"] = stats.get("rejected", 0) + 1
        if model != real:
            chk.disagree("factorization: error raised", {**where, "model": model, "impl": real, "graph": gS})
        if isinstance(exc, KeyError):
            # a crash of the real code on an input nothing rejects on purpose (fixed by e5efe38: the zero
            # operand of conditional(c, f, 0) is inserted into F; armed in case it returns)
            chk.violation(key="factorization:crash:keyerror-zero-in-conditional",
                          what="compute_argument_factorization raises KeyError(Zero): handle_conditional builds "
                               "conditional(c, f, as_ufl(0.0)) but Zero is not a node of F",
                          payload={**where, "graph": gS, "exception": repr(exc)})
        return

    # ---------- accepted by the real code
    model_rejects = fz[0] == "err"
    if model_rejects:
        chk.disagree("factorization: model rejects an accepted graph", {**where, "model": fz[1:], "graph": gS})
        fz = ["ok", ["F"], ["factors"], ["nodefacs"], ["argidx"]]
        m_wf = False
    f_targets = []
    real_factors = set()
    for fi, v in F.nodes.items():
        tg, cp = v.get("target") or [], v.get("component") or []
        if len(tg) != len(cp):
            chk.disagree("factorization: target/component lists of an F node differ in length", {**where, "fi": fi})
            return
        for k, c in zip(tg, cp):
            real_factors.add((int(c), tuple(int(a) for a in k), int(fi)))
    f_nodes = ex.nodes(F)
    gF = ex.graph(F, f_targets)
    m_F = _model_nodes(fz[1][1:])
    m_factors = {(int(t[0]), tuple(int(a) for a in t[1]), int(t[2])) for t in fz[2][1:]}
    m_nodefacs = [{tuple(int(a) for a in kv[0]): int(kv[1]) for kv in d} for d in fz[3][1:]]
    m_argidx = [int(x) for x in fz[4][1:]]
    n_keys = len({k for _, k, _ in real_factors})
    chk.case(kind="factorization",
             key=f"{name.split(':')[0]}:{len(s_nodes)}:{len(f_nodes)}:{n_keys}:{rank}",
             sample={**where, "F_nodes": len(f_nodes), "argkeys": n_keys})
    stats["accepted"] = stats.get("accepted", 0) + 1

    # (ii) structure (a disagreement here does not stop the identity check below, which judges the REAL
    # S and F by the property's own oracle)
    def structure():
        if m_argidx != list(ex.arg_indices):
            return "factorization: arg_indices", {**where, "model": m_argidx, "impl": list(ex.arg_indices)}
        real_nodefacs = [{tuple(int(a) for a in k): int(fi) for k, fi in (v.get("factors") or {}).items()}
                         for _, v in S.nodes.items()]
        cm, cr = _canon_nodes(m_F), _canon_nodes(f_nodes)
        same_F = len(cm) == len(cr) and all(a[1] == b[1] and _lit_close(a[0], b[0]) for a, b in zip(cm, cr))
        if not same_F:
            i = next((i for i, (a, b) in enumerate(zip(cm, cr)) if a[1] != b[1] or not _lit_close(a[0], b[0])),
                     min(len(cm), len(cr)))
            return "factorization: graph F", {**where, "model_len": len(cm), "impl_len": len(cr), "first_diff": i,
                                              "model": cm[i:i + 2], "impl": cr[i:i + 2], "graph": gS}
        if m_nodefacs != real_nodefacs:
            i = next(i for i, (a, b) in enumerate(zip(m_nodefacs, real_nodefacs)) if a != b)
            return "factorization: S.nodes[i]['factors']", {**where, "node": i, "model": str(m_nodefacs[i]),
                                                           "impl": str(real_nodefacs[i]), "graph": gS}
        if m_factors != real_factors:
            return ("factorization: argkeys / factor indices per component",
                    {**where, "model": sorted(m_factors)[:20], "impl": sorted(real_factors)[:20], "graph": gS})
        return None

    dis = ("model rejects", {}) if model_rejects else structure()
    if dis is not None and not model_rejects:
        chk.disagree(*dis)

    # (iii) Σ_k F_k Π args = S on exact random assignments, evaluated on the REAL S and the REAL F
    n_args, n_terms = len(ex.arg_indices), len(ex.ids)
    bad = None
    approx_only = False
    for args, terms in _assignments(chk.seed, name, n_args, n_terms):
        env = _env_sexp(args, terms)
        vS = driver.ask(f"(evalgraph {gS} {env})")
        vF = driver.ask(f"(evalgraph {gF} {env})")
        if vS[0] != "ok" or vF[0] != "ok":
            chk.disagree("factorization: evalgraph (driver error)", {**where, "S": str(vS)[:200], "F": str(vF)[:200]})
            return
        vS = [Fraction(x) for x in vS[1:]]
        vF = [Fraction(x) for x in vF[1:]]
        for t, comps in targets:
            for c in comps:
                tot = Fraction(0)
                for (cc, k, fi) in real_factors:
                    if cc == c:
                        term = vF[fi]
                        for a in k:
                            term *= vF[a]
                        tot += term
                if tot != vS[t]:
                    if abs(tot - vS[t]) <= 1e-12 * max(abs(tot), abs(vS[t]), 1):
                        approx_only = True  # float rounding of UFL's constant folding inside F
                    else:
                        bad = bad or {"target": t, "component": c, "S": float(vS[t]), "sum": float(tot),
                                      "args": [str(a) for a in args], "terms": [str(x) for x in terms]}
    if approx_only:
        stats["identity_up_to_literal_rounding"] = stats.get("identity_up_to_literal_rounding", 0) + 1
    if bad is not None and pipeline_error is not None:
        stats.setdefault("identity_fails_but_rejected_later", []).append(
            {**where, "later_error": f"{type(pipeline_error).__name__}: {str(pipeline_error)[:80]}"})
        return
    if bad is not None:
        # the cause is read off the REAL per-node factors, so the keys stay armed whatever the model says
        real_nf = [{tuple(int(a) for a in k): int(fi) for k, fi in (v.get("factors") or {}).items()}
                   for _, v in S.nodes.items()]
        cause = _wf_cause(s_nodes, real_nf, targets, rank)
        if cause == "other":
            cause = "model-rejects" if model_rejects else ("wf-holds" if m_wf else "other")
        chk.violation(key=f"factorization:identity-fails:{cause}",
                      what="compute_argument_factorization accepts the integrand but Σ_k F_k·Π args ≠ S "
                           f"({cause})",
                      payload={**where, **bad, "wf": m_wf, "wf_strict": m_strict, "graph": gS, "F": gF,
                               "factors": sorted(real_factors)})
        if m_wf and dis is None:
            chk.disagree("factorization: identity fails although WF holds and the model reproduces F "
                         "(theorem factorize_sound contradicted: evaluator or exporter wrong)",
                         {**where, **bad, "graph": gS})
        return
    if model_rejects:
        return
    if not m_wf:
        stats["wf_false_identity_holds"] = stats.get("wf_false_identity_holds", 0) + 1
        stats.setdefault("wf_false", []).append({**where, "cause": _wf_cause(s_nodes, m_nodefacs, targets, rank)})
    if not m_strict:
        stats["wf_strict_false"] = stats.get("wf_strict_false", 0) + 1


def _wf_cause(s_nodes, nodefacs, targets, rank):
    for (k, ds) in s_nodes:
        if k == "sum" and len(ds) == 2 and bool(nodefacs[ds[0]]) != bool(nodefacs[ds[1]]):
            return "sum-drops-argument-free-summand"
    for t, _ in targets:
        if not nodefacs[t] and rank > 0 and s_nodes[t][0] != "zero":
            return "argument-free-target-dropped"
    for (k, ds) in s_nodes:
        if k == "prod" and len(ds) == 2 and nodefacs[ds[0]] and nodefacs[ds[1]]:
            keys = [tuple(sorted(k0 + k1)) for k0 in nodefacs[ds[0]] for k1 in nodefacs[ds[1]]]
            if len(set(keys)) != len(keys):
                return "product-argkey-collision"
    return "other"


def _compute_entry(entry):
    opts = pipeline.default_options(**entry.options)
    with capture_factorizations() as cap:
        err = None
        try:
            pipeline.compute(entry.build(), opts)
        except BaseException as ex:  # noqa: BLE001  (UFL's ArityMismatch is a BaseException)
            if isinstance(ex, (KeyboardInterrupt, SystemExit)):
                raise
            err = ex
    return cap, err


def check_factorization(chk, driver, entries):
    """Every integrand of `entries`: WF, model factorisation vs real, exact identity on 8 assignments."""
    stats = chk.notes.setdefault("factorization", {})
    for entry in entries:
        cap, err = _compute_entry(entry)
        if err is not None and not (cap and cap[-1]["exc"] is err):
            # failed elsewhere (UFL arity check, unsupported element …): not this function's business
            stats.setdefault("skipped", []).append(f"{entry.name}: {type(err).__name__}")
        for k, rec in enumerate(cap):
            later = err if (err is not None and rec["exc"] is None) else None
            check_one_factorization(chk, driver, f"{entry.name}:{k}", rec, stats, pipeline_error=later)
    return stats


# ------------------------------------------------------------------------------------- probes
def probe_entries():
    """Expressions (they by-pass UFL's arity checker) and forms that exercise the accept/reject
    boundary of compute_argument_factorization."""
    import basix.ufl
    import ufl
    from ufl import (Coefficient, FunctionSpace, Mesh, TestFunction, TrialFunction, conditional, dx, lt, sqrt)
    E = corpus.Entry
    P = np.array([[0.25, 0.25]])

    def sp():
        m = Mesh(basix.ufl.element("P", "triangle", 1, shape=(2,)))
        V = FunctionSpace(m, basix.ufl.element("P", "triangle", 1))
        VV = FunctionSpace(m, basix.ufl.element("P", "triangle", 1, shape=(2,)))
        return m, V, VV

    def mk(f):
        def b():
            m, V, VV = sp()
            return f(TrialFunction(V), TestFunction(V), Coefficient(V), Coefficient(V), TrialFunction(VV), TestFunction(VV))
        return b

    ex = "expression"
    return [
        E("probe_u_plus_f", mk(lambda u, v, f, g, uu, vv: [(u + f, P)]), kind=ex),
        E("probe_fu_plus_g", mk(lambda u, v, f, g, uu, vv: [(f * u + g, P)]), kind=ex),
        E("probe_sqrt_u", mk(lambda u, v, f, g, uu, vv: [(sqrt(u), P)]), kind=ex),
        E("probe_abs_u", mk(lambda u, v, f, g, uu, vv: [(abs(u), P)]), kind=ex),
        E("probe_u_pow_2", mk(lambda u, v, f, g, uu, vv: [(u ** 2, P)]), kind=ex),
        E("probe_f_div_u", mk(lambda u, v, f, g, uu, vv: [(f / u, P)]), kind=ex),
        E("probe_cond_on_u", mk(lambda u, v, f, g, uu, vv: [(conditional(lt(u, 0.5), f, g), P)]), kind=ex),
        E("probe_cond_u_f", mk(lambda u, v, f, g, uu, vv: [(conditional(lt(f, 0.5), u, f), P)]), kind=ex),
        E("probe_cond_u_0", mk(lambda u, v, f, g, uu, vv: [conditional(lt(f, 0.5), u, 0) * v * dx])),
        E("probe_cond_u_2u", mk(lambda u, v, f, g, uu, vv: [conditional(lt(f, 0.5), u, 2 * u) * v * dx])),
        E("probe_cond_u0_u1", mk(lambda u, v, f, g, uu, vv: [conditional(lt(f, 0.5), uu[0], uu[1]) * vv[0] * dx])),
        E("probe_u_over_f", mk(lambda u, v, f, g, uu, vv: [(u / (f + 2), P)]), kind=ex),
        E("probe_u_times_u", mk(lambda u, v, f, g, uu, vv: [(u * u, P)]), kind=ex),
        E("probe_vector_u_f", mk(lambda u, v, f, g, uu, vv: [(ufl.as_vector((u, f)), P)]), kind=ex),
        E("probe_collision", mk(lambda u, v, f, g, uu, vv: [((uu[0] + uu[1]) * (uu[0] + uu[1]), P)]), kind=ex),
        E("probe_cond_f_u0_u1_expr", mk(lambda u, v, f, g, uu, vv: [(conditional(lt(f, 0.5), uu[0], uu[1]), P)]), kind=ex),
    ]


def check_factorization_probes(chk, driver):
    return check_factorization(chk, driver, probe_entries())


# --------------------------------------------------------------------------------------- demo
if __name__ == "__main__":  # PYTHONPATH=/verif /venv/bin/python -m harness.ir_checks [--probes] [--finish]
    import json
    import sys
    import time

    from . import lean
    from .framework import Check

    chk = Check("C01", "quick", 0)
    entries = corpus.fixed() + corpus.expressions()
    with lean.Driver("driver_ir") as d:
        t0 = time.time()
        check_tables(chk, d, entries, rtol=1e-6, atol=1e-9)
        t1 = time.time()
        check_factorization(chk, d, entries)
        t2 = time.time()
        if "--probes" in sys.argv:
            check_factorization_probes(chk, d)
    print(f"tables {t1 - t0:.1f}s  factorization {t2 - t1:.1f}s  evaluations {chk.evaluations} "
          f"distinct {len(chk.nontrivial)} disagreements {chk.disagreements_checked}")
    print(json.dumps({k: v for k, v in chk.notes.items() if k != "factorization"}, default=str)[:1500])
    for v in chk.violations:
        print("violation:", v["key"])
    if "--finish" in sys.argv:
        sys.exit(chk.finish())
