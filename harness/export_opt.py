"""Export of LNodes trees for the optimiser model (driver_opt).

Same s-expression schema as `export.py` (readable by `Wire.readStmt`), with the differences the
optimiser model needs:

* `Section.input` / `Section.output` are written in their LIST ORDER (export.py sorts them; the order is
  what `list(dict.fromkeys(...))` in `fuse_sections` produces);
* things the model cannot see are refused (`ExportError`) instead of being silently dropped:
  - a `ForRange` index that is not `Symbol(_, INT)` (the model rebuilds `temp[i]` with an int symbol),
  - a `LiteralInt` loop bound whose value is not a Python int (`licm` passes `end.value - begin.value`
    to `ArrayDecl`, which treats `np.integer` differently),
  - two distinct `MultiIndex` objects that are structurally equal, or one `Product` object that
    occurs twice inside a section annotated `licm` (Python compares `MultiIndex` by identity and `licm`
    mutates `Product.args` in place; neither identity is visible in a tree).
"""
import numpy as np

import ffcx.codegeneration.lnodes as L

from . import export
from .export import ExportError
from .sexp import q


class _Ctx:
    def __init__(self, strict=True):
        self.strict = strict
        self.mi = {}  # text -> id(obj)
        self.prods = set()  # id(Product) seen inside licm sections
        self.in_licm = False


def _scan_expr(e, ctx):
    """identity checks on MultiIndex / Product objects"""
    t = type(e)
    if not ctx.strict:
        return
    if t is L.MultiIndex:
        txt = export.expr(e)
        if ctx.mi.setdefault(txt, id(e)) != id(e):
            raise ExportError("two distinct MultiIndex objects are structurally equal")
        for s in e.symbols:
            _scan_expr(s, ctx)
        _scan_expr(e.global_index, ctx)
    elif t in (L.Neg, L.Not):
        _scan_expr(e.arg, ctx)
    elif isinstance(e, L.BinOp):
        _scan_expr(e.lhs, ctx)
        _scan_expr(e.rhs, ctx)
    elif t in (L.Sum, L.Product):
        if t is L.Product and ctx.in_licm:
            if id(e) in ctx.prods:
                raise ExportError("a Product object is shared inside a licm section")
            ctx.prods.add(id(e))
        for a in e.args:
            _scan_expr(a, ctx)
    elif t is L.MathFunction:
        for a in e.args:
            _scan_expr(a, ctx)
    elif t is L.ArrayAccess:
        for a in e.indices:
            _scan_expr(a, ctx)
    elif t is L.Conditional:
        _scan_expr(e.condition, ctx)
        _scan_expr(e.true, ctx)
        _scan_expr(e.false, ctx)


def _bound(e, ctx):
    if ctx.strict and type(e) is L.LiteralInt and type(e.value) is not int:
        raise ExportError(f"loop bound LiteralInt of type {type(e.value).__name__}")
    return export.expr(e)


def _stmt(s, ctx):
    t = type(s)
    if t is L.Statement:
        _scan_expr(s.expr, ctx)
        return export.stmt(s)
    if t is L.VariableDecl:
        if s.value is not None:
            _scan_expr(s.value, ctx)
        return export.stmt(s)
    if t is L.ForRange:
        if not (type(s.index) is L.Symbol and s.index.dtype == L.DataType.INT):
            raise ExportError("ForRange index is not Symbol(_, INT)")
        body = " ".join(_stmt(b, ctx) for b in s.body.statements)
        return f"(for {s.index.name} {_bound(s.begin, ctx)} {_bound(s.end, ctx)} {body})"
    if t is L.StatementList:
        return "(block " + " ".join(_stmt(b, ctx) for b in s.statements) + ")"
    if isinstance(s, list):
        return "(block " + " ".join(_stmt(b, ctx) for b in s) + ")"
    if t is L.Section:
        saved = ctx.in_licm
        ctx.in_licm = saved or (L.Annotation.licm in s.annotations)
        try:
            decls = " ".join(_stmt(d, ctx) for d in s.declarations)
            stmts = " ".join(_stmt(b, ctx) for b in s.statements)
        finally:
            ctx.in_licm = saved
        for w in list(s.input) + list(s.output):
            if type(w) is not L.Symbol:
                raise ExportError("Section input/output is not a Symbol")
        inp = " ".join(w.name for w in s.input)
        out = " ".join(w.name for w in s.output)
        ann = " ".join(a.name for a in s.annotations)
        return f"(section {q(s.name)} ({decls}) ({stmts}) ({inp}) ({out}) ({ann}))"
    return export.stmt(s)


def stmt(s) -> str:
    """one statement / section, order-preserving"""
    return _stmt(s, _Ctx())


def code(parts, strict=True) -> list:
    """a part list (argument / result of `optimize`) as a list of s-expression texts; identity checks
    (strict=True, for inputs) are made across the whole list"""
    ctx = _Ctx(strict)
    return [_stmt(p, ctx) for p in parts]


def exception_name(ex) -> str:
    return type(ex).__name__
