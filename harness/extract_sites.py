"""AST scan of /repo/ffcx/**/*.py for order/identity-sensitive sites  (DESIGN.md §4.1, §6 C12, App. A).

Translator part of property C12: it writes Lean *data* only
(`lean/FfcxModel/Generated/Sites.lean`, regenerated on every run, written only if changed).

What is a site (one record per STATEMENT that contains at least one of these):

  set-call / frozenset-call   `set(...)`, `frozenset(...)`
  set-display / set-comp      `{a, b}`, `{f(x) for x in xs}`
  set-binop                   `|`, `&`, `-`, `^` with a set-valued operand; `.union(...)` & co.
  set-use                     a load of a name / attribute / dict-of-set entry that the scanner
                              inferred to be set-valued (local flow: assignments, annotations,
                              `for k, v in d.items()` over a dict of sets, `self.x` per module)
  ordered-dedup               `dict.fromkeys(xs)`: duplicate removal in order of FIRST OCCURRENCE -- the order-preserving
                              replacement of `list(set(xs))`; recorded so that the model's claim about the statement is
                              tied to its text (reverting it to a set produces a new, unmodelled set site)
  id-call                     builtin `id(x)`
  ufl-id-call                 `x.ufl_id()`            (UFL's global per-class object counter)
  count-call                  `x.count()` (no args)   (UFL's global Index/Coefficient counters)
  hash-call                   builtin `hash(x)` outside a `__hash__` definition
  hash-def                    a `def __hash__` (decides whether container order depends on the hash seed)
  module-state / class-state  module- or class-level binding of a mutable container / counter
  module-state-write          a statement that mutates such a binding, `global` statements
  memo-decorator              `functools.cache`, `lru_cache`, `cached_property`
  dispatch-registry           `singledispatch`, `singledispatchmethod` (import-time registry)
  itertools-count             `itertools.count(...)`
  instance-state              `self.x = <mutable container / counter dict>` in `__init__` (per-instance caches and
                              counters: harmless iff a fresh instance is made per kernel -- theorem `counters_fresh`)
  foreign-mutation            a mutating call / subscript store on a plain name that the function did not itself
                              create as a fresh container (a parameter, or the result of a call such as
                              `metadata = integral.metadata()`): the caller's / UFL's object is changed in place

For every set-valued expression the *use* is classified from its syntactic consumer:

  sorted      passed straight to `sorted(...)` (also through list()/tuple()/a generator)
  oblivious   `len/min/max/any/all/bool`, `in`, `==`, `!=`, `<=`…, truth tests, set-to-set conversion
  singleton   `(x,) = set(...)`   (raises unless exactly one element: no order to leak)
  mutate      `.add/.update/.discard/.remove/.clear` on a set variable (no order involved)
  stored      bound to a name / attribute                   (flow continues at the `set-use` sites)
  escapes     returned, or stored inside a container / passed on through a subscript store
  passed      argument of a non-builtin call (callee decides), e.g. `sort_elements(set(...))`
  iterated    `for … in S`, comprehension over S, `list(S)`, `tuple(S)`, `enumerate`, `.pop()`, `*S`, `join`

Record fields: file (relative to the repo), enclosing function (`Class.method`, `<module>`), line of
the first hit, hash = first 12 hex digits of SHA-256 of the *normalised statement source*
(`ast.unparse`: comments, spacing and quoting removed; compound statements contribute their header
only), kinds, uses, `oblivious` (every set use in the statement is sorted/oblivious/singleton/mutate),
and a classification tag = the most order-revealing use in the statement.
The key of a record is (file, function, hash): a moved line does not change it, an edited statement does.

Not listed, and why:
  * dict iteration (`.items()/.keys()/.values()`): insertion-ordered by the language since 3.7, so it
    inherits its order from whatever filled the dict; it is a site only when a set fills it (set-use).
  * `assert` statements whose set uses are all order-oblivious (e.g. `assert set(d.keys()) == template_keys(t)`)
    and type annotations: neither can influence the generated text.
  * `quadrature_rule.id()` & other *methods* named id: not the builtin (the `hash-def`/`def id` of
    QuadratureRule is listed through its `hash-call`s).
The scanner is syntactic and intra-procedural: a set that `escapes` is followed by hand in
`FfcxModel/Determinism/Sites.lean` (this is the trusted part of C12's inventory, see DESIGN §6 C12 "Level").
"""
from __future__ import annotations

import ast
import hashlib
import json
import os
import re
import sys
from pathlib import Path

VERIF = Path(__file__).resolve().parent.parent
REPO = Path(os.environ.get("FFCX_REPO", "/repo"))
OUT = VERIF / "lean" / "FfcxModel" / "Generated" / "Sites.lean"

SET_BINOPS = (ast.BitOr, ast.BitAnd, ast.Sub, ast.BitXor)
SET_METHODS_SETVALUED = {"union", "intersection", "difference", "symmetric_difference", "copy"}
SET_METHODS_MUTATE = {"add", "update", "discard", "remove", "clear", "difference_update",
                      "intersection_update", "symmetric_difference_update"}
SET_METHODS_OBLIVIOUS = {"issubset", "issuperset", "isdisjoint", "__contains__"}
OBLIVIOUS_CALLS = {"len", "min", "max", "any", "all", "bool"}
SETLIKE_CALLS = {"set", "frozenset"}
ITER_CALLS = {"list", "tuple", "enumerate", "iter", "next", "zip", "map", "filter", "reversed", "sum", "dict"}
MUTABLE_CTORS = {"dict", "list", "set", "defaultdict", "OrderedDict", "Counter", "deque", "bytearray"}
WRITE_METHODS = {"append", "extend", "update", "setdefault", "pop", "popitem", "clear", "add", "insert",
                 "remove", "discard", "__setitem__"}
MEMO_DECORATORS = {"cache", "lru_cache", "cached_property"}
DISPATCH_DECORATORS = {"singledispatch", "singledispatchmethod"}
SEVERITY = ["sorted", "oblivious", "singleton", "mutate", "stored", "escapes", "passed", "iterated"]
OBLIVIOUS_USES = {"sorted", "oblivious", "singleton", "mutate"}


def _name_of_call(c: ast.Call) -> str | None:
    f = c.func
    if isinstance(f, ast.Name):
        return f.id
    if isinstance(f, ast.Attribute):
        return f.attr
    return None


def _ann_kind(ann: ast.AST | None) -> str | None:
    """'set' | 'dictofset' | None from a type annotation."""
    if ann is None:
        return None
    s = ast.unparse(ann).replace("typing.", "").replace(" ", "")
    if re.match(r"^(set|frozenset|Set|FrozenSet|AbstractSet)(\[|$)", s):
        return "set"
    if re.match(r"^(dict|Dict|defaultdict|collections\.defaultdict)\[[^\]]*?,(set|frozenset|Set)\[", s):
        return "dictofset"
    return None


class ModuleScan:
    def __init__(self, path: Path, rel: str):
        self.path = path
        self.rel = rel
        self.src = path.read_text()
        self.tree = ast.parse(self.src)
        self.parent: dict[ast.AST, ast.AST] = {}
        for n in ast.walk(self.tree):
            for c in ast.iter_child_nodes(n):
                self.parent[c] = n
        self.records: dict[tuple, dict] = {}
        # attribute names (self.X) inferred set-valued / dict-of-set, module wide
        self.attr_kind: dict[str, str] = {}
        # per scope (function node or module): name -> kind
        self.scope_names: dict[ast.AST, dict[str, str]] = {}
        self.flow_ready = False
        self.flow: dict = {}
        self._infer()
        self._collect_flow()
        self.flow_ready = True

    # ------------------------------------------------------------------ scopes
    def scope_of(self, n: ast.AST) -> ast.AST:
        p = self.parent.get(n)
        while p is not None and not isinstance(p, (ast.FunctionDef, ast.AsyncFunctionDef, ast.Lambda, ast.Module)):
            p = self.parent.get(p)
        return p or self.tree

    def qualname(self, n: ast.AST) -> str:
        parts = []
        p = n if isinstance(n, (ast.FunctionDef, ast.AsyncFunctionDef, ast.ClassDef)) else self.parent.get(n)
        while p is not None:
            if isinstance(p, (ast.FunctionDef, ast.AsyncFunctionDef, ast.ClassDef)):
                parts.append(p.name)
            p = self.parent.get(p)
        return ".".join(reversed(parts)) or "<module>"

    def stmt_of(self, n: ast.AST) -> ast.stmt:
        p = n
        while not isinstance(p, ast.stmt):
            p = self.parent[p]
        return p

    @staticmethod
    def stmt_text(s: ast.stmt, via: ast.AST | None = None) -> str:
        """Normalised source of a statement; compound statements give their header only."""
        if isinstance(s, (ast.For, ast.AsyncFor)):
            return f"for {ast.unparse(s.target)} in {ast.unparse(s.iter)}"
        if isinstance(s, ast.While):
            return f"while {ast.unparse(s.test)}"
        if isinstance(s, ast.If):
            return f"if {ast.unparse(s.test)}"
        if isinstance(s, (ast.With, ast.AsyncWith)):
            return "with " + ", ".join(ast.unparse(i) for i in s.items)
        if isinstance(s, (ast.FunctionDef, ast.AsyncFunctionDef)):
            dec = "".join(f"@{ast.unparse(d)} " for d in s.decorator_list)
            return f"{dec}def {s.name}({ast.unparse(s.args)})"
        if isinstance(s, ast.ClassDef):
            return f"class {s.name}"
        if isinstance(s, (ast.Try,)):
            return "try"
        return ast.unparse(s)

    # ------------------------------------------------------- set-type inference
    def kind_of_expr(self, e: ast.AST, names: dict[str, str]) -> str | None:
        """'set' | 'dictofset' | None for an expression, given the scope's inferred names."""
        if isinstance(e, (ast.Set, ast.SetComp)):
            return "set"
        if isinstance(e, ast.Call):
            fn = _name_of_call(e)
            if isinstance(e.func, ast.Name) and fn in SETLIKE_CALLS:
                return "set"
            if isinstance(e.func, ast.Attribute) and fn in SET_METHODS_SETVALUED and \
                    self.kind_of_expr(e.func.value, names) == "set":
                return "set"
            if fn == "defaultdict" and e.args and isinstance(e.args[0], ast.Name) and e.args[0].id in SETLIKE_CALLS:
                return "dictofset"
            return None
        if isinstance(e, ast.BinOp) and isinstance(e.op, SET_BINOPS):
            if self.kind_of_expr(e.left, names) == "set" or self.kind_of_expr(e.right, names) == "set":
                return "set"
            return None
        if isinstance(e, ast.DictComp):
            return "dictofset" if self.kind_of_expr(e.value, names) == "set" else None
        if isinstance(e, ast.Dict):
            if e.values and all(self.kind_of_expr(v, names) == "set" for v in e.values):
                return "dictofset"
            return None
        if isinstance(e, ast.Name):
            return self.name_kind(e, names)
        if isinstance(e, ast.Attribute) and isinstance(e.value, ast.Name) and e.value.id in ("self", "cls"):
            return self.attr_kind.get(e.attr)
        if isinstance(e, ast.Subscript):
            return "set" if self.kind_of_expr(e.value, names) == "dictofset" else None
        if isinstance(e, ast.IfExp):
            a, b = self.kind_of_expr(e.body, names), self.kind_of_expr(e.orelse, names)
            return a if a == b else (a or b)
        return None

    def name_kind(self, e: ast.Name, names: dict[str, str]) -> str | None:
        """Kind of a name at a use: the latest binding (in source order, same scope) that ends before the use."""
        if not self.flow_ready:
            return names.get(e.id)
        sc = self.scope_of(e)
        bl = self.flow.get(sc, {}).get(e.id)
        if not bl:
            return names.get(e.id)
        pos = (e.lineno, e.col_offset)
        best = None
        for endpos, kind in bl:
            if endpos <= pos and (best is None or endpos >= best[0]):
                best = (endpos, kind)
        if best is None:
            return names.get(e.id)
        return best[1]

    def _collect_flow(self):
        """Second phase: every (re)binding of a candidate set name, with the kind of the bound value."""
        self.flow = {}
        for n in ast.walk(self.tree):
            targets, kindf = [], None
            if isinstance(n, ast.Assign):
                targets, val = n.targets, n.value
            elif isinstance(n, ast.AnnAssign) and n.value is not None:
                targets, val = [n.target], n.value
            elif isinstance(n, ast.AugAssign):
                targets, val = [n.target], n.value
            elif isinstance(n, (ast.For, ast.comprehension)):
                targets, val = [n.target], None
            else:
                continue
            sc = self.scope_of(n) if not isinstance(n, ast.comprehension) else self.scope_of(n.target)
            names = self.scope_names.get(sc, {})
            for t in targets:
                for nm in ast.walk(t):
                    if isinstance(nm, ast.Name) and isinstance(nm.ctx, ast.Store) and nm.id in names:
                        if isinstance(n, ast.AnnAssign):
                            k = _ann_kind(n.annotation) or self.kind_of_expr(val, names)
                        elif isinstance(n, ast.AugAssign):
                            k = names.get(nm.id)
                        elif val is None:
                            k = names.get(nm.id)  # loop targets keep the phase-1 kind
                        elif isinstance(t, ast.Name):
                            k = self.kind_of_expr(val, names)
                        else:
                            k = None
                        end = (getattr(n, "end_lineno", None) or n.lineno, getattr(n, "end_col_offset", 0)) \
                            if val is not None else (nm.lineno, nm.col_offset)
                        self.flow.setdefault(sc, {}).setdefault(nm.id, []).append((end, k))

    def _bind(self, target: ast.AST, kind: str | None, names: dict[str, str]) -> bool:
        if kind is None:
            return False
        if isinstance(target, ast.Name):
            if names.get(target.id) != kind:
                names[target.id] = kind
                return True
        elif isinstance(target, ast.Attribute) and isinstance(target.value, ast.Name) and target.value.id in ("self", "cls"):
            if self.attr_kind.get(target.attr) != kind:
                self.attr_kind[target.attr] = kind
                return True
        return False

    def _infer(self):
        scopes = [self.tree] + [n for n in ast.walk(self.tree)
                                if isinstance(n, (ast.FunctionDef, ast.AsyncFunctionDef, ast.Lambda))]
        for sc in scopes:
            self.scope_names[sc] = {}
        changed = True
        rounds = 0
        while changed and rounds < 8:
            changed = False
            rounds += 1
            for n in ast.walk(self.tree):
                sc = self.scope_of(n) if not isinstance(n, ast.Module) else self.tree
                names = self.scope_names.setdefault(sc, {})
                if isinstance(n, ast.Assign):
                    k = self.kind_of_expr(n.value, names)
                    for t in n.targets:
                        changed |= self._bind(t, k, names)
                elif isinstance(n, ast.AnnAssign):
                    k = _ann_kind(n.annotation) or (self.kind_of_expr(n.value, names) if n.value else None)
                    changed |= self._bind(n.target, k, names)
                elif isinstance(n, ast.AugAssign):
                    if isinstance(n.op, SET_BINOPS) and self.kind_of_expr(n.value, names) == "set":
                        changed |= self._bind(n.target, "set", names)
                elif isinstance(n, ast.arg):
                    k = _ann_kind(n.annotation)
                    fn = self.parent.get(self.parent.get(n))  # arguments -> FunctionDef
                    if k and fn in self.scope_names:
                        if self.scope_names[fn].get(n.arg) != k:
                            self.scope_names[fn][n.arg] = k
                            changed = True
                elif isinstance(n, (ast.For, ast.comprehension)):
                    it, tg = n.iter, n.target
                    # for k, v in D.items() / for v in D.values() over a dict of sets
                    if isinstance(it, ast.Call) and isinstance(it.func, ast.Attribute) and not it.args:
                        base_kind = self.kind_of_expr(it.func.value, names)
                        if base_kind == "dictofset":
                            if it.func.attr == "items" and isinstance(tg, ast.Tuple) and len(tg.elts) == 2:
                                changed |= self._bind(tg.elts[1], "set", names)
                            elif it.func.attr == "values":
                                changed |= self._bind(tg, "set", names)

    # ------------------------------------------------------------ recording
    def add(self, node: ast.AST, kind: str, use: str | None = None, stmt: ast.stmt | None = None,
            text: str | None = None, func: str | None = None):
        s = stmt or self.stmt_of(node)
        txt = text if text is not None else self.stmt_text(s)
        txt = re.sub(r"\s+", " ", txt).strip()
        fn = func if func is not None else self.qualname(s if not isinstance(s, (ast.FunctionDef, ast.ClassDef)) else self.parent.get(s, s))
        if isinstance(s, (ast.FunctionDef, ast.AsyncFunctionDef)) and func is None:
            # header sites (decorators) belong to the function itself
            fn = self.qualname(s)
        h = hashlib.sha256(txt.encode()).hexdigest()[:12]
        key = (self.rel, fn, h)
        r = self.records.get(key)
        if r is None:
            r = self.records[key] = {"file": self.rel, "func": fn, "line": getattr(node, "lineno", s.lineno), "hash": h,
                                     "kinds": set(), "uses": set(), "stmt": txt, "count": 0, "_stmts": set()}
        r["kinds"].add(kind)
        if use:
            r["uses"].add(use)
        r["line"] = min(r["line"], getattr(node, "lineno", s.lineno))
        r["_stmts"].add(id(s))
        r["count"] = len(r["_stmts"])

    # --------------------------------------------------------- use classification
    def classify_use(self, e: ast.AST, names) -> str:
        """How is the (maximal) set-valued expression `e` consumed?"""
        p = self.parent.get(e)
        # look through parentheses-like wrappers: none in the AST. Starred:
        if isinstance(p, ast.Starred):
            return "iterated"
        if isinstance(p, ast.Call):
            fn = _name_of_call(p)
            if e in p.args or any(kw.value is e for kw in p.keywords):
                if isinstance(p.func, ast.Name):
                    if fn == "sorted":
                        return "sorted"
                    if fn in OBLIVIOUS_CALLS:
                        return "oblivious"
                    if fn in ("list", "tuple"):
                        # list(S) straight into sorted(...)
                        pp = self.parent.get(p)
                        if isinstance(pp, ast.Call) and isinstance(pp.func, ast.Name) and pp.func.id == "sorted" and p in pp.args:
                            return "sorted"
                        return "iterated"
                    if fn in ITER_CALLS:
                        return "iterated"
                    if fn in ("isinstance", "type", "id", "print", "repr", "str"):
                        return "iterated" if fn in ("repr", "str", "print") else "oblivious"
                    return "passed"
                if isinstance(p.func, ast.Attribute):
                    if fn == "join":
                        return "iterated"
                    if fn in SET_METHODS_MUTATE | SET_METHODS_OBLIVIOUS and self.kind_of_expr(p.func.value, names) == "set":
                        return "oblivious"  # argument of S.update(T) etc.: contents only
                    if fn in ("extend", "append", "insert"):
                        return "iterated" if fn == "extend" else "escapes"
                    return "passed"
                return "passed"
        if isinstance(p, ast.Attribute) and p.value is e:
            pp = self.parent.get(p)
            if isinstance(pp, ast.Call) and pp.func is p:
                if p.attr in SET_METHODS_MUTATE:
                    return "mutate"
                if p.attr in SET_METHODS_OBLIVIOUS:
                    return "oblivious"
                if p.attr == "pop":
                    return "iterated"
            return "passed"
        if isinstance(p, ast.Compare):
            return "oblivious"
        if isinstance(p, (ast.BoolOp, ast.UnaryOp)) or (isinstance(p, (ast.If, ast.While, ast.Assert, ast.IfExp)) and getattr(p, "test", None) is e):
            return "oblivious"
        if isinstance(p, (ast.For, ast.AsyncFor)) and p.iter is e:
            return "iterated"
        if isinstance(p, ast.comprehension) and p.iter is e:
            comp = self.parent.get(p)
            if isinstance(comp, ast.SetComp):
                return "oblivious"
            if isinstance(comp, (ast.GeneratorExp, ast.ListComp)):
                cp = self.parent.get(comp)
                if isinstance(cp, ast.Call) and isinstance(cp.func, ast.Name) and comp in cp.args:
                    if cp.func.id == "sorted":
                        return "sorted"
                    if cp.func.id in OBLIVIOUS_CALLS | SETLIKE_CALLS:
                        return "oblivious"
            return "iterated"
        if isinstance(p, ast.Assign) and p.value is e:
            t = p.targets[0]
            if isinstance(t, (ast.Tuple, ast.List)):
                return "singleton" if len(t.elts) == 1 and not isinstance(t.elts[0], ast.Starred) else "iterated"
            if isinstance(t, ast.Subscript):
                return "escapes"
            return "stored"
        if isinstance(p, ast.AnnAssign) and p.value is e:
            return "stored"
        if isinstance(p, ast.AugAssign) and p.value is e:
            return "stored" if isinstance(p.op, SET_BINOPS) else "iterated"
        if isinstance(p, (ast.Return, ast.Yield, ast.Dict, ast.List, ast.Tuple, ast.DictComp, ast.ListComp, ast.keyword,
                          ast.Subscript, ast.GeneratorExp)):
            return "escapes"
        if isinstance(p, ast.Expr):
            return "oblivious"
        return "escapes"

    def is_set_node(self, e: ast.AST, names) -> bool:
        return isinstance(e, ast.expr) and not isinstance(getattr(e, "ctx", None), (ast.Store, ast.Del)) \
            and self.kind_of_expr(e, names) == "set"

    def in_annotation(self, n: ast.AST) -> bool:
        c, p = n, self.parent.get(n)
        while p is not None:
            if isinstance(p, ast.AnnAssign) and p.annotation is c:
                return True
            if isinstance(p, ast.arg) and p.annotation is c:
                return True
            if isinstance(p, (ast.FunctionDef, ast.AsyncFunctionDef)) and p.returns is c:
                return True
            if isinstance(p, ast.stmt):
                return False
            c, p = p, self.parent.get(p)
        return False

    # ------------------------------------------------------------------- scan
    def scan(self):
        tree = self.tree
        # ---- module- and class-level mutable state
        module_state: dict[str, ast.stmt] = {}
        for s in tree.body:
            tgt, val = None, None
            if isinstance(s, ast.Assign) and len(s.targets) == 1 and isinstance(s.targets[0], ast.Name):
                tgt, val = s.targets[0].id, s.value
            elif isinstance(s, ast.AnnAssign) and isinstance(s.target, ast.Name) and s.value is not None:
                tgt, val = s.target.id, s.value
            if tgt and not tgt.startswith("__") and self._mutable_ctor(val):
                module_state[tgt] = s
        written = set()
        for n in ast.walk(tree):
            if isinstance(n, ast.Global):
                for nm in n.names:
                    written.add(nm)
                self.add(n, "module-state-write", None)
            nm = self._written_name(n)
            if nm and nm in module_state and self.scope_names.get(self.scope_of(n), {}).get(nm) is None \
                    and not self._is_local(nm, n):
                if self.stmt_of(n) is not module_state[nm]:
                    written.add(nm)
                    self.add(n, "module-state-write", None)
        for nm, s in module_state.items():
            ctor = self._mutable_ctor(s.value)
            self.add(s, "module-state", None, stmt=s, text=f"{nm} = <{ctor}>", func="<module>")
            self.records[(self.rel, "<module>", hashlib.sha256(f"{nm} = <{ctor}>".encode()).hexdigest()[:12])]["uses"].add(
                "written" if nm in written else "const")
        for c in ast.walk(tree):
            if isinstance(c, ast.ClassDef):
                for s in c.body:
                    if isinstance(s, ast.Assign) and len(s.targets) == 1 and isinstance(s.targets[0], ast.Name) \
                            and self._mutable_ctor(s.value):
                        nm = s.targets[0].id
                        self.add(s, "class-state", None, stmt=s, text=f"{nm} = <{self._mutable_ctor(s.value)}>",
                                 func=self.qualname(c))
        # ---- per-instance state created in __init__ (directly or via init_* helpers called from it)
        for f in ast.walk(tree):
            if isinstance(f, (ast.FunctionDef,)) and (f.name == "__init__" or f.name.startswith("init_")) \
                    and isinstance(self.parent.get(f), ast.ClassDef):
                for n in ast.walk(f):
                    tgt = val = None
                    if isinstance(n, ast.Assign) and len(n.targets) == 1:
                        tgt, val = n.targets[0], n.value
                    elif isinstance(n, ast.AnnAssign) and n.value is not None:
                        tgt, val = n.target, n.value
                    if tgt is not None and isinstance(tgt, ast.Attribute) and isinstance(tgt.value, ast.Name) \
                            and tgt.value.id == "self" and self._mutable_ctor(val):
                        self.add(n, "instance-state", None, stmt=n,
                                 text=f"self.{tgt.attr} = <{self._mutable_ctor(val)}>", func=self.qualname(f))
        # ---- in-place mutation of objects the function did not create
        for f in ast.walk(tree):
            if not isinstance(f, (ast.FunctionDef, ast.AsyncFunctionDef)):
                continue
            fresh, foreign = set(), set()
            for a in f.args.args + f.args.kwonlyargs + f.args.posonlyargs:
                if a.arg not in ("self", "cls"):
                    foreign.add(a.arg)
            for n in ast.walk(f):
                if self.scope_of(n) is not f:
                    continue
                tgts, val = [], None
                if isinstance(n, ast.Assign):
                    tgts, val = n.targets, n.value
                elif isinstance(n, ast.AnnAssign) and n.value is not None:
                    tgts, val = [n.target], n.value
                for t in tgts:
                    if isinstance(t, ast.Name):
                        if self._fresh_value(val):
                            fresh.add(t.id)
                        else:
                            foreign.add(t.id)
            for n in ast.walk(f):
                if self.scope_of(n) is not f:
                    continue
                nm = self._written_name(n)
                if isinstance(n, ast.AugAssign):
                    continue  # rebinding for immutables / lists handled as local
                if nm and nm in foreign and nm not in fresh and nm not in module_state:
                    self.add(n, "foreign-mutation", None)
        # ---- decorators, __hash__ definitions
        for f in ast.walk(tree):
            if isinstance(f, (ast.FunctionDef, ast.AsyncFunctionDef)):
                for d in f.decorator_list:
                    dn = d.func if isinstance(d, ast.Call) else d
                    nm = dn.attr if isinstance(dn, ast.Attribute) else (dn.id if isinstance(dn, ast.Name) else None)
                    if nm in MEMO_DECORATORS:
                        self.add(f, "memo-decorator", None, stmt=f)
                    elif nm in DISPATCH_DECORATORS:
                        self.add(f, "dispatch-registry", None, stmt=f)
                if f.name == "__hash__":
                    body = "; ".join(ast.unparse(b) for b in f.body
                                     if not (isinstance(b, ast.Expr) and isinstance(b.value, ast.Constant)))
                    self.add(f, "hash-def", None, stmt=f, text=f"def __hash__: {body}", func=self.qualname(f))
        # ---- expression-level sites
        for n in ast.walk(tree):
            if not isinstance(n, ast.expr) or self.in_annotation(n):
                continue
            names = self.scope_names.get(self.scope_of(n), {})
            if isinstance(n, ast.Call):
                fn = _name_of_call(n)
                if isinstance(n.func, ast.Name):
                    if fn == "id" and len(n.args) == 1:
                        self.add(n, "id-call")
                    elif fn == "hash" and len(n.args) == 1:
                        if not self.qualname(n).endswith("__hash__"):
                            self.add(n, "hash-call")
                    elif fn == "count" and self._imports_itertools_count():
                        self.add(n, "itertools-count")
                elif isinstance(n.func, ast.Attribute):
                    if fn == "fromkeys" and isinstance(n.func.value, ast.Name) and n.func.value.id in ("dict", "OrderedDict"):
                        self.add(n, "ordered-dedup")
                    if fn == "ufl_id" and not n.args:
                        self.add(n, "ufl-id-call")
                    elif fn == "count" and not n.args and not n.keywords:
                        self.add(n, "count-call")
                    elif fn == "count" and isinstance(n.func.value, ast.Name) and n.func.value.id == "itertools":
                        self.add(n, "itertools-count")
            if not self.is_set_node(n, names):
                continue
            # kinds of this node
            if isinstance(n, ast.Call):
                fn = _name_of_call(n)
                kind = {"set": "set-call", "frozenset": "frozenset-call"}.get(fn, "set-binop")
            elif isinstance(n, ast.Set):
                kind = "set-display"
            elif isinstance(n, ast.SetComp):
                kind = "set-comp"
            elif isinstance(n, ast.BinOp):
                kind = "set-binop"
            else:
                kind = "set-use"
            # maximal? (not an operand of an enclosing set-valued expression)
            p = self.parent.get(n)
            maximal = True
            if isinstance(p, ast.BinOp) and self.is_set_node(p, names):
                maximal = False
            if isinstance(p, ast.Call) and isinstance(p.func, ast.Name) and p.func.id in SETLIKE_CALLS and n in p.args:
                maximal = False
            if isinstance(p, ast.Attribute) and p.attr in SET_METHODS_SETVALUED and p.value is n:
                maximal = False
            if isinstance(p, ast.Call) and isinstance(p.func, ast.Attribute) and p.func.attr in SET_METHODS_SETVALUED \
                    and n in p.args and self.is_set_node(p, names):
                maximal = False
            if isinstance(p, ast.IfExp) and self.is_set_node(p, names) and n is not p.test:
                maximal = False
            if isinstance(p, ast.Subscript) and p.value is n:
                maximal = True
            use = self.classify_use(n, names) if maximal else None
            if kind == "set-use" and use == "mutate":
                continue  # S.add(x): no order involved, not a site
            self.add(n, kind, use)
        # ---- filters
        out = []
        for r in self.records.values():
            st = r["stmt"]
            if st.startswith("assert ") and r["kinds"] <= {"set-call", "set-use", "set-binop", "set-display", "set-comp", "frozenset-call"} \
                    and r["uses"] <= OBLIVIOUS_USES:
                continue
            out.append(r)
        return out

    def _imports_itertools_count(self) -> bool:
        for n in self.tree.body:
            if isinstance(n, ast.ImportFrom) and n.module == "itertools" and any(a.name == "count" for a in n.names):
                return True
        return False

    @staticmethod
    def _mutable_ctor(v: ast.AST | None) -> str | None:
        if isinstance(v, (ast.Dict, ast.DictComp)):
            return "dict"
        if isinstance(v, (ast.List, ast.ListComp)):
            return "list"
        if isinstance(v, (ast.Set, ast.SetComp)):
            return "set"
        if isinstance(v, ast.Call):
            fn = _name_of_call(v)
            if fn in MUTABLE_CTORS:
                return fn
            if fn == "count" and isinstance(v.func, ast.Attribute):
                return "itertools.count"
        return None

    def _fresh_value(self, v: ast.AST | None) -> bool:
        """Does the expression create a new object owned by this function (so mutating it is local)?"""
        if v is None:
            return False
        if isinstance(v, (ast.Dict, ast.List, ast.Set, ast.Tuple, ast.ListComp, ast.DictComp, ast.SetComp,
                          ast.Constant, ast.JoinedStr, ast.BinOp, ast.GeneratorExp)):
            return True
        if isinstance(v, ast.Call):
            fn = _name_of_call(v)
            if fn in MUTABLE_CTORS | {"copy", "deepcopy", "sorted", "tuple", "zeros", "empty", "array", "full", "ones",
                                      "asarray", "vstack", "hstack", "reshape", "transpose", "NamedTemporaryFile"}:
                return True
            if isinstance(v.func, ast.Name) and v.func.id[:1].isupper():
                return True   # constructor call
            if isinstance(v.func, ast.Attribute) and v.func.attr[:1].isupper():
                return True
        if isinstance(v, ast.Subscript):
            return False
        return False

    def _is_local(self, nm: str, n: ast.AST) -> bool:
        """Is `nm` (re)bound locally in the function enclosing n (then it is not the module global)?"""
        sc = self.scope_of(n)
        if isinstance(sc, ast.Module):
            return False
        for a in ast.walk(sc):
            if isinstance(a, ast.Global) and nm in a.names:
                return False
        for a in ast.walk(sc):
            if isinstance(a, ast.Name) and a.id == nm and isinstance(a.ctx, ast.Store):
                return True
            if isinstance(a, ast.arg) and a.arg == nm:
                return True
        return False

    @staticmethod
    def _written_name(n: ast.AST) -> str | None:
        """Name of a plain variable mutated by node n (subscript store, aug-assign, mutating method)."""
        if isinstance(n, ast.Subscript) and isinstance(n.ctx, (ast.Store, ast.Del)) and isinstance(n.value, ast.Name):
            return n.value.id
        if isinstance(n, ast.AugAssign) and isinstance(n.target, ast.Name):
            return n.target.id
        if isinstance(n, ast.Call) and isinstance(n.func, ast.Attribute) and n.func.attr in WRITE_METHODS \
                and isinstance(n.func.value, ast.Name):
            return n.func.value.id
        return None


def tag_of(r: dict) -> str:
    kinds, uses = r["kinds"], r["uses"]
    setk = {"set-call", "frozenset-call", "set-display", "set-comp", "set-binop", "set-use"}
    if kinds & setk:
        worst = max((u for u in uses if u in SEVERITY), key=SEVERITY.index, default="stored")
        base = "set-" + worst
    else:
        base = ""
    extra = sorted(k for k in kinds if k not in setk)
    if "module-state" in kinds:
        extra = ["module-state-" + ("written" if "written" in uses else "const")] + [k for k in extra if k != "module-state"]
    return "+".join(([base] if base else []) + extra)


def scan_repo(repo: Path = REPO) -> list[dict]:
    out = []
    root = repo / "ffcx"
    for p in sorted(root.rglob("*.py")):
        rel = str(p.relative_to(repo))
        ms = ModuleScan(p, rel)
        for r in ms.scan():
            setuses = {u for u in r["uses"] if u in SEVERITY}
            out.append({
                "file": r["file"], "func": r["func"], "line": r["line"], "hash": r["hash"],
                "kinds": sorted(r["kinds"]), "uses": sorted(r["uses"]),
                "oblivious": bool(setuses) and setuses <= OBLIVIOUS_USES,
                "tag": tag_of(r), "count": r["count"], "stmt": r["stmt"],
            })
    out.sort(key=lambda r: (r["file"], r["line"], r["hash"]))
    return out


# ------------------------------------------------------------------------ Lean
def _lstr(s: str) -> str:
    s = s.replace("\\", "\\\\").replace('"', '\\"').replace("\n", "\\n").replace("\t", " ")
    return '"' + "".join(ch if 32 <= ord(ch) < 127 else "?" for ch in s) + '"'


def render_lean(sites: list[dict]) -> str:
    L = []
    L.append("/-")
    L.append("GENERATED by harness/extract_sites.py from the working tree of /repo -- do not edit.")
    L.append("Inventory of order/identity-sensitive sites of ffcx/**/*.py (DESIGN.md section 4.1, C12).")
    L.append("Data only: one record per statement; key = (file, function, hash of the normalised statement).")
    L.append("-/")
    L.append("namespace Ffcx.Generated")
    L.append("")
    L.append("structure Site where")
    L.append("  file : String")
    L.append("  func : String")
    L.append("  line : Nat")
    L.append("  hash : String")
    L.append("  kinds : List String")
    L.append("  uses : List String")
    L.append("  oblivious : Bool")
    L.append("  tag : String")
    L.append("  count : Nat")
    L.append("  stmt : String")
    L.append("deriving Repr, DecidableEq")
    L.append("")
    L.append("/-- (file, enclosing function, statement hash): line numbers are deliberately not part of the key. -/")
    L.append("def Site.key (s : Site) : String × String × String := (s.file, s.func, s.hash)")
    L.append("")
    L.append("def sites : List Site := [")
    rows = []
    for r in sites:
        kinds = "[" + ", ".join(_lstr(k) for k in r["kinds"]) + "]"
        uses = "[" + ", ".join(_lstr(k) for k in r["uses"]) + "]"
        stmt = r["stmt"] if len(r["stmt"]) <= 160 else r["stmt"][:157] + "..."
        rows.append(
            f"  ⟨{_lstr(r['file'])}, {_lstr(r['func'])}, {r['line']}, {_lstr(r['hash'])},\n"
            f"   {kinds}, {uses}, {'true' if r['oblivious'] else 'false'}, {_lstr(r['tag'])}, {r['count']},\n"
            f"   {_lstr(stmt)}⟩"
        )
    L.append(",\n".join(rows))
    L.append("]")
    L.append("")
    L.append("end Ffcx.Generated")
    return "\n".join(L) + "\n"


def regenerate(repo: Path = REPO, out: Path = OUT):
    """Rescan and rewrite Generated/Sites.lean if (and only if) its content changed. Returns (sites, changed)."""
    sites = scan_repo(repo)
    txt = render_lean(sites)
    old = out.read_text() if out.exists() else None
    if old == txt:
        return sites, False
    out.parent.mkdir(parents=True, exist_ok=True)
    tmp = out.with_name(f".{out.name}.tmp{os.getpid()}")
    tmp.write_text(txt)
    os.replace(tmp, out)
    return sites, True


if __name__ == "__main__":
    if "--json" in sys.argv:
        json.dump(scan_repo(), sys.stdout, indent=1)
    elif "--table" in sys.argv:
        for r in scan_repo():
            print(f"{r['file']}:{r['line']:<4} {r['func']:<45} {r['hash']} {r['tag']:<34} obl={int(r['oblivious'])} | {r['stmt'][:110]}")
    else:
        s, ch = regenerate()
        print(f"{len(s)} sites; {'rewritten' if ch else 'unchanged'}: {OUT}")
