"""An exact evaluator for LNodes expressions in Python (Fractions), independent of the Lean model.

Used by failing-input searches: 'the value of the simplified tree equals the value of the
unsimplified operation'.  Symbols are looked up in `env` (name -> Fraction / bool / int),
arrays in `arrays` (name -> nested lists or dict index-tuple -> value).  Uninterpreted math
functions are evaluated as a fixed injective-ish hash of (name, args), which is sound for
comparing two trees built from the same function symbols.
"""
from fractions import Fraction

import ffcx.codegeneration.lnodes as L


class EvalError(Exception):
    pass


def _fn(name, args):
    if name == "abs":
        return abs(args[0])
    if name == "min_value":
        return min(args)
    if name == "max_value":
        return max(args)
    if name in ("conj", "real"):
        return args[0]
    if name == "imag":
        return Fraction(0)
    h = hash((name,) + tuple(args)) % 1000003
    return Fraction(h, 1000003) + 2


def ev(e, env, arrays=None):
    arrays = arrays or {}
    t = type(e)
    if t is L.LiteralFloat:
        v = e.value
        if isinstance(v, complex):
            if v.imag != 0:
                raise EvalError("complex literal")
            v = v.real
        return Fraction(float(v))
    if t is L.LiteralInt:
        return Fraction(int(e.value))
    if t is L.Symbol:
        if e.name not in env:
            raise EvalError(f"unbound {e.name}")
        return env[e.name]
    if t is L.MultiIndex:
        return ev(e.global_index, env, arrays)
    if t is L.Neg:
        return -ev(e.arg, env, arrays)
    if t is L.Not:
        return Fraction(0 if ev(e.arg, env, arrays) else 1)
    if t is L.Add:
        return ev(e.lhs, env, arrays) + ev(e.rhs, env, arrays)
    if t is L.Sub:
        return ev(e.lhs, env, arrays) - ev(e.rhs, env, arrays)
    if t is L.Mul:
        return ev(e.lhs, env, arrays) * ev(e.rhs, env, arrays)
    if t is L.Div:
        d = ev(e.rhs, env, arrays)
        if d == 0:
            raise EvalError("division by zero value")
        return ev(e.lhs, env, arrays) / d
    if t is L.Sum:
        s = Fraction(0)
        for a in e.args:
            s += ev(a, env, arrays)
        return s
    if t is L.Product:
        p = Fraction(1)
        for a in e.args:
            p *= ev(a, env, arrays)
        return p
    if t in (L.LT, L.LE, L.GT, L.GE, L.EQ, L.NE):
        a, b = ev(e.lhs, env, arrays), ev(e.rhs, env, arrays)
        r = {L.LT: a < b, L.LE: a <= b, L.GT: a > b, L.GE: a >= b, L.EQ: a == b, L.NE: a != b}[t]
        return Fraction(1 if r else 0)
    if t is L.And:
        return Fraction(1 if (ev(e.lhs, env, arrays) != 0 and ev(e.rhs, env, arrays) != 0) else 0)
    if t is L.Or:
        return Fraction(1 if (ev(e.lhs, env, arrays) != 0 or ev(e.rhs, env, arrays) != 0) else 0)
    if t is L.Conditional:
        return ev(e.true, env, arrays) if ev(e.condition, env, arrays) != 0 else ev(e.false, env, arrays)
    if t is L.MathFunction:
        return _fn(e.function, [ev(a, env, arrays) for a in e.args])
    if t is L.ArrayAccess:
        idx = tuple(int(ev(i, env, arrays)) for i in e.indices)
        a = arrays.get(e.array.name)
        if a is None:
            # deterministic pseudo-content
            h = hash((e.array.name,) + idx) % 10007
            return Fraction(h - 5000, 64)
        return a[idx]
    raise EvalError(f"cannot evaluate {t.__name__}")
